"""C06 — remapping qubits equals rebuilding the pulse with permuted tensor factors."""
import itertools

import numpy as np

import filter_functions as ff
from filter_functions import basis as ffb
from filter_functions import util

from .. import gens
from ..common import corr_script, driver
from .c05 import embed

THEOREMS = '''argsort_is_inverse argsort_is_perm argsort_perm_eq_symm exists_mat_of_matrix
parseval_complete product_basis_transpose reindex_compose reindex_refl reindex_star_alg
remapPauli_id remapPauli_pi remapPauli_swap remap_compose remap_compose_labels remap_control_matrix
remap_control_matrix_model remap_ff_incomplete_basis_counterexample remap_filter_function
remap_filter_function_complete remap_filter_function_compose remap_id remap_id_labels remap_isEigh
remap_isEigh_gen remap_liouville remap_liouville_model remap_liouville_swap remap_propagators
remap_propagators_gen remap_scatter_gather remap_segProp remap_segProp_gen remap_total_propagator
swapFin_apply swap_kron swap_kronFin swap_product_basis tensor_transpose_pi'''.split() + [
    # module C06Def: the definition part of remap (identifiers, order, coefficients, times, cached rows)
    'FFVerif.C06Def.mapIdentifiers_spec',
    'FFVerif.C06Def.remapDef_sorted',
    'FFVerif.C06Def.remapDef_none_order',
    'FFVerif.C06Def.remapDef_keeps_association',
    'FFVerif.C06Def.remapDef_term_mem',
    'FFVerif.C06Def.remapDef_errors_iff',
    'FFVerif.C06Def.remapDef_order_irrelevant',
    'FFVerif.C06Def.remapDef_operator_order_irrelevant',
    'FFVerif.C06Def.remapDef_times',
    'FFVerif.C06Def.remapDef_id',
    'FFVerif.C06Def.remapDef_id_dict',
    'FFVerif.C06Def.remapDef_compose',
    'FFVerif.C06Def.argsortNat_eq',
    'FFVerif.C06Def.scatter_argsort_eq_gather',
    'FFVerif.C06Def.remap_cached_rows_follow_noise_order',
    'FFVerif.C06Def.scatter_rows_perm',
    'FFVerif.C06Def.remap_duplicates_rejected',
    'FFVerif.C06Def.remap_duplicates_rejected_at', 'FFVerif.C06Def.remapDef_ids_unique'] + ['FFVerif.C05d.' + t for t in '''remap_keeps_diag remap_cm_iff remap_omega_iff
remap_lazy_iff remap_not_pauli_blocks_auto'''.split()]
LEAN_MODULES = ['FFVerif.Props.C06', 'FFVerif.Props.C05d', 'FFVerif.Props.C06Def']
PINS = ['pinRemap', 'pinMapIdentifiers']
GEN_SITES = ['einsum:numeric_calculate_control_matrix_from_scratch_0']
COMPONENTS = ['pauli_remap', 'remap_decision']
RULES = ['correspondence: remap_pauli_basis_elements vs the Lean index map for all permutations, '
         'n <= 4; search: remap() for n = 2..3 (thorough: 4) qubits, all permutations, identifier '
         'mappings incl. ones that change the sort order, traceless and non-traceless noise '
         'operators, every cache state: operators, identifiers, eigenvectors/propagators/Liouville '
         'propagator/phases/control matrix/filter function vs the permuted pulse rebuilt from '
         'scratch; composition remap(q) o remap(p) and identity; distinct = (perm, mapping, cache '
         'state) hash']
ASSUMPTIONS = ['NumPy argsort is an unstable sort; identifiers are distinct so this does not matter']
TRUSTED = ['modelled not verified: identifier mapping dictionaries of remap (covered by search)']


def decision_correspondence(ctx):
    """which cached quantities `remap` carries over (diagonalisation, total propagator, control
    matrix, frequencies, total phases, filter function, Liouville propagator; lazily or not) vs the
    Lean model `ExtendLogic.remapLogic`, and `extend` through `remap`"""
    from . import extendlogic
    n, counts, mism = extendlogic.run(120 if ctx.tier == 'quick' else 3000,
                                      int(ctx.rng('decision').integers(0, 2**31)))
    mism = [m for m in mism if m['kind'] != 'extend']
    ctx.stat('remap_decisions', counts.get('remap', 0))
    for _ in range(counts.get('remap', 0)):
        ctx.count()
    ctx.oblige('correspondence:remap_decision', 'correspondence', not mism,
               f'{len(mism)} remap decisions disagree; first: {mism[:2]}')


def correspondence(ctx):
    decision_correspondence(ctx)
    # definition part of remap / extend on real pulses vs the model RemapDef
    corr_script(ctx, 'corr_c06def', ['_map_identifiers', 'remap', 'cached rows scatter/gather'])
    lines, refs = [], []
    for N in range(1, 5):
        for p in itertools.permutations(range(N)):
            lines.append('pauli_remap %d %s' % (N, ','.join(map(str, p))))
            refs.append(list(ffb.remap_pauli_basis_elements(list(p), N)))
            ctx.count(lines[-1])
    outs = driver(lines)
    bad = [(ln, o[:40]) for ln, o, r in zip(lines, outs, refs)
           if not (o.startswith('ok ') and [int(t) for t in o[3:].split(',')] == [int(x) for x in r])]
    ctx.oblige('correspondence:pauli_remap', 'correspondence', not bad, f'{len(bad)} disagree: {bad[:2]}')


def make_pulse(rng, n, traceless, n_dt):
    d = 2**n
    n_c, n_n = int(rng.integers(1, 5)), int(rng.integers(2, 5))
    P = gens.PAULI
    def prod_op():
        facs = [P[int(rng.integers(0, 4))]*rng.uniform(0.5, 1.5) for _ in range(n)]
        return util.tensor(*facs)
    cops = [gens.rand_herm(rng, d) if rng.random() < 0.5 else prod_op() for _ in range(n_c)]
    nops = [gens.rand_herm(rng, d, traceless=traceless) if rng.random() < 0.5 else
            prod_op() + (0 if traceless else 0.3*np.eye(d)) for _ in range(n_n)]
    ids = [str(x) for x in rng.permutation(['a', 'b', 'c', 'd'])[:n_n]]
    return dict(d=d, c_opers=np.array(cops), c_ids=[f'C{i}' for i in range(n_c)],
                c_coeffs=rng.standard_normal((n_c, n_dt)), n_opers=np.array(nops), n_ids=ids,
                n_coeffs=rng.uniform(0.3, 1.5, (n_n, n_dt)), dt=rng.uniform(0.2, 1.2, n_dt),
                basis=('pauli',) if rng.random() < 0.75 else
                ('derived', ('pauli',), str(rng.choice(['permute', 'swap2', 'swap_last'])),
                 int(rng.integers(0, 2**31))),
                features=[] if traceless else ['nontraceless_nop'])


def permute_op(op, order, n):
    return util.tensor_transpose(op, list(order), [[2]*n]*2)


def check_remap(ctx, case):
    rng = np.random.default_rng(case['seed'])
    n, order = int(case['n']), list(case['order'])
    desc = make_pulse(rng, n, bool(case['traceless']), int(case['n_dt']))
    om = np.sort(rng.uniform(0.1, 5, 5))
    p = gens.build(desc)
    st = case['state']
    if st == 'diag':
        p.diagonalize()
    elif st == 'cm':
        p.cache_control_matrix(om)
    elif st == 'ff':
        p.cache_filter_function(om)
    elif st == 'all':
        p.cache_filter_function(om)
        p.get_total_phases(om)
        p.total_propagator_liouville
    elif st == 'pc' and len(desc['dt']) >= 2:
        # the pulse is itself a concatenation of its two halves with pulse-correlation data
        k = len(desc['dt'])//2
        halves = []
        for sl in (slice(0, k), slice(k, None)):
            h = dict(desc)
            h['c_coeffs'] = np.asarray(desc['c_coeffs'])[:, sl]
            h['n_coeffs'] = np.asarray(desc['n_coeffs'])[:, sl]
            h['dt'] = np.asarray(desc['dt'])[sl]
            halves.append(gens.build(h))
        p = ff.concatenate(halves, calc_pulse_correlation_FF=True, omega=om)
    mapping = None
    new_nids = list(desc['n_ids'])
    new_cids = list(desc['c_ids'])
    if case['remap_ids']:
        # rename control and noise identifiers so that their sort order is permuted arbitrarily
        # (reversals, cyclic shifts, ... : every permutation of up to four operators occurs)
        mrng = np.random.default_rng(case['seed'] + 1)
        cl = [str(x) for x in mrng.permutation(['p', 'q', 'r', 's'])[:len(desc['c_ids'])]]
        nl = [str(x) for x in mrng.permutation(['w', 'x', 'y', 'z'])[:len(desc['n_ids'])]]
        mapping = dict(zip(desc['c_ids'], cl))
        mapping.update(dict(zip(desc['n_ids'], nl)))
        new_nids = [mapping[i] for i in desc['n_ids']]
        new_cids = [mapping[i] for i in desc['c_ids']]
    key = (n, tuple(order), st, case['remap_ids'], case['traceless'], case['seed'])
    ctx.count(key, nontrivial=order != sorted(order))
    try:
        r = ff.remap(p, order, oper_identifier_mapping=mapping)
    except Exception as e:   # noqa
        ctx.fail('remap_succeeds', case, type(e).__name__ + ': ' + str(e), 'a pulse', {},
                 f'remap raised {type(e).__name__}: {e}')
        return
    ref_desc = dict(desc)
    ref_desc['c_opers'] = np.array([permute_op(o, order, n) for o in desc['c_opers']])
    ref_desc['n_opers'] = np.array([permute_op(o, order, n) for o in desc['n_opers']])
    ref_desc['n_ids'] = new_nids
    ref_desc['c_ids'] = new_cids
    ref = gens.build(ref_desc)
    probs = []
    if not (r == ref):
        probs.append('remapped pulse differs from the rebuilt permuted pulse (operators / identifiers)')
    else:
        for attr in ('eigvecs', 'propagators'):
            if r.is_cached(attr):
                pass
        if r.is_cached('eigvals'):
            H = np.einsum('ijk,il->ljk', r.c_opers, r.c_coeffs)
            V, D = r.eigvecs, r.eigvals
            res = max(np.max(np.abs(H[g] @ V[g] - V[g]*D[g][None, :])) for g in range(len(r.dt)))
            if res > 1e-9:
                probs.append(f'carried-over eigen-decomposition wrong ({res:.2g})')
        if r.is_cached('propagators') and not np.allclose(r.propagators, ref.propagators, atol=1e-9):
            probs.append('carried-over propagators differ')
        if r.is_cached('total_propagator') and \
                not np.allclose(r.total_propagator, ref.total_propagator, atol=1e-9):
            probs.append('carried-over total propagator differs')
        if r.is_cached('total_propagator_liouville') and \
                not np.allclose(r.total_propagator_liouville, ref.total_propagator_liouville, atol=1e-9):
            probs.append('carried-over Liouville propagator differs')
        if r.is_cached('total_phases') and not np.allclose(r.get_total_phases(om),
                                                           ref.get_total_phases(om), atol=1e-12):
            probs.append('carried-over phases differ')
        if r.is_cached('control_matrix'):
            e = gens.rel_err(r.get_control_matrix(om), ref.get_control_matrix(om))
            if not e <= 1e-8:
                probs.append(f'carried-over control matrix differs by {e:.3g}')
        if r.is_cached('filter_function'):
            e = gens.rel_err(r.get_filter_function(om), ref.get_filter_function(om))
            if not e <= 1e-8:
                probs.append(f'carried-over filter function differs by {e:.3g}')
        if r.is_cached('control_matrix_pc'):
            # pulse-correlation control matrices sum over the pulse index to the total one
            e = gens.rel_err(np.sum(r._control_matrix_pc, axis=0), ref.get_control_matrix(om))
            if not e <= 1e-8:
                probs.append(f'carried-over pulse-correlation control matrix differs by {e:.3g}')
        if r.is_cached('filter_function_pc'):
            e = gens.rel_err(np.sum(r._filter_function_pc, axis=(0, 1)), ref.get_filter_function(om))
            if not e <= 1e-8:
                probs.append(f'carried-over pulse-correlation filter function differs by {e:.3g}')
        # whatever was or was not carried over: the same request on the same grid
        e = gens.rel_err(r.get_control_matrix(om), ref.get_control_matrix(om))
        if not e <= 1e-8:
            probs.append(f'control matrix requested on the grid of the input differs by {e:.3g}')
        e = gens.rel_err(r.get_filter_function(om*0.9), ref.get_filter_function(om*0.9))
        if not e <= 1e-8:
            probs.append(f'later requested filter function differs by {e:.3g}')
    # composition and identity
    q_order = list(rng.permutation(n))
    p2 = gens.build(desc)
    p2.cache_filter_function(om)
    two = ff.remap(ff.remap(p2, order), q_order)
    comp = [order[i] for i in q_order]
    one = ff.remap(gens.build(desc), comp)
    one.cache_filter_function(om)
    if not (two == one):
        probs.append(f'remap({q_order}) o remap({order}) != remap({comp})')
    elif not np.allclose(two.get_filter_function(om), one.get_filter_function(om), atol=1e-9):
        probs.append('composition: filter function differs')
    ident = ff.remap(gens.build(desc), list(range(n)))
    if not (ident == gens.build(desc)):
        probs.append('identity permutation changes the pulse')
    if probs:
        ctx.fail('remap_vs_rebuilt', case, probs, 'pulse rebuilt with permuted factors', {},
                 f'n={n} order={order} state={st} remap_ids={case["remap_ids"]}: {probs[:3]}')


CHECKS = {'remap_succeeds': check_remap, 'remap_vs_rebuilt': check_remap}


def replay(ctx, check, case):
    check_remap(ctx, case)


def search(ctx, deep=False):
    rng = ctx.rng('deep' if deep else 'search')
    big = ctx.tier == 'thorough' or deep
    cases = []
    for n in (2, 3) + ((4,) if big else ()):
        perms = list(itertools.permutations(range(n)))
        if n == 4 and not (ctx.tier == 'thorough' and deep):
            perms = [perms[i] for i in rng.choice(len(perms), 8, replace=False)]
        for order in perms:
            for st in (['nothing', 'diag', 'cm', 'ff', 'all', 'pc'] if big else
                       [str(rng.choice(['nothing', 'diag', 'cm', 'ff', 'all', 'pc']))]):
                cases.append((n, order, st))
            if n == 3 and not big and list(order) in ([1, 2, 0], [2, 0, 1]):
                # the two orders that differ from their inverse, on a pulse with pulse-correlation data
                cases.append((n, order, 'pc'))
    for i, (n, order, st) in enumerate(cases):
        case = {'seed': int(rng.integers(0, 2**31)), 'n': n, 'order': list(order), 'state': st,
                'n_dt': int(rng.integers(1, 3)) if st != 'pc' else int(rng.integers(2, 4)),
                'remap_ids': bool(rng.integers(0, 2)),
                'traceless': bool(rng.integers(0, 2))}
        check_remap(ctx, case)
        if i < 2:
            ctx.sample(case)
    ctx.exhaustive = bool(big)
