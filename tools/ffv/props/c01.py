"""C01 — control matrix and first-order filter functions equal their defining integral."""
import numpy as np

import filter_functions as ff
from filter_functions import numeric

from .. import gens
from ..common import arr2bits, bits2arr, driver, f2b

THEOREMS = ['segIntegral_closed', 'segIntegral_zero', 'firstOrderEntry_exact',
            'firstOrderEntry_masked_error', 'firstOrderEntry_error_current',
            'firstOrderEntry_zero_dt', 'firstOrderEntry_neg', 'ff_call_wiring',
            'ff_generalized_def', 'ff_fidelity_def', 'ff_fidelity_is_trace', 'ff_hermitian',
            'ff_gen_hermitian', 'ff_posSemidef', 'ff_diag_nonneg', 'trace_Useg', 'cm_entry',
            'segment_trace_integral', 'cm_segment_form', 'cm_segment_form_error',
            # bound and reflection symmetry for the code as it is, masked branch included (C01Bound)
            'firstOrderEntry_norm_le', 'firstOrderEntry_norm_masked', 'firstOrderEntry_norm_zero',
            'maskThr_nonneg', 'cm_entry_eq_trace', 'cm_entry_norm_le', "cm_entry_norm_le'",
            'ff_fid_eq_frob_sq', 'ff_fid_le', 'ff_fid_re_le', 'ff_fid_offdiag_le',
            'herm_sandwich_apply', 'cm_neg_omega', 'cm_neg_omega_map', 'ff_neg_omega',
            'ff_neg_omega_diag', 'ff_gen_neg_omega', 'firstOrderEntry_zero_x', 'ff_fid_le_sharp']
LEAN_MODULES = ['FFVerif.Props.C01', 'FFVerif.Props.C01Seg', 'FFVerif.Props.C01Bound', 'FFVerif.Props.C01Unique',
                'FFVerif.Props.C12Frame']
# module C12Frame (C01 part): Parseval and the bound (constant 1) for complete Hilbert-Schmidt-orthonormal bases with
# NON-Hermitian elements; F(-w) = conj F(w) needs Hermitian elements (ladder-basis counterexample) or adjoint-closedness
THEOREMS = THEOREMS + [
    'FFVerif.C01.ff_fid_eq_frob_sq_general', 'FFVerif.C01.ff_fid_le_general',
    'FFVerif.C01.ff_fid_offdiag_le_general', 'FFVerif.C01.ladderBasis_ortho',
    'FFVerif.C01.ladderBasis_complete', 'FFVerif.C01.ladderBasis_not_herm',
    'FFVerif.C01.cm_neg_omega_needs_hermitian_basis', 'FFVerif.C01.cm_neg_omega_adjoint',
    'FFVerif.C01.ff_neg_omega_adjoint_closed']
# module C01Unique: control matrix / filter functions / infidelity do not depend on WHICH eigh output is used
# (phases, bases of degenerate eigenspaces, order of eigenvalues), for every guard kind and threshold
THEOREMS = THEOREMS + [
    'FFVerif.EighUniqueAux.trans_support', 'FFVerif.EighUniqueAux.eigenvalue_mem', 'FFVerif.EighUniqueAux.eigenvalues_perm',
    'FFVerif.EighUniqueAux.operator_function_unique', 'FFVerif.EighUniqueAux.double_sum_unique', 'FFVerif.EighUniqueAux.quad_sum_unique',
    'FFVerif.C01.cm_segment_eigh_independent', 'FFVerif.C01.cm_eigh_independent_entry', 'FFVerif.C01.cm_eigh_independent',
    'FFVerif.C01.cm_eigh_independent_diagonalize', 'FFVerif.C01.cm_eigh_independent_current', 'FFVerif.C01.cm_eigh_independent_error',
    'FFVerif.C01.Useg_eigh_independent', 'FFVerif.C01.Useg_eq_exp', 'FFVerif.C01.cm_segment_form_exp',
    'FFVerif.C01.cm_integral_eigh_independent', 'FFVerif.C01.ff_eigh_independent', 'FFVerif.C01.infidelity_eigh_independent',
    'FFVerif.C01.eigvals_perm', 'FFVerif.C01.szId_eigh', "FFVerif.C01.szId_eigh'"]
PINS = ['pinControlMatrixFromScratch']
GEN_SITES = ['const:numeric._first_order_integral',
             'einsum:numeric_calculate_control_matrix_from_scratch_0',
             'einsum:numeric_calculate_filter_function_0',
             'einsum:numeric_calculate_filter_function_1',
             'einsum:numeric_calculate_filter_function_call0']
COMPONENTS = ['first_order_integral', 'cm_from_scratch', 'filter_function']
RULES = ['correspondence: random (E, eigvals, dt) incl. both sides of the mask; random pulses '
         '(d<=4, <=4 segments) fed with the package\'s own eigh output; distinct = distinct '
         'input hash; non-trivial = at least one masked and one unmasked entry (integral) / '
         'non-commuting control (control matrix)',
         'search: pulses with idle/zero-length/repeated/degenerate/large-angle segments, '
         'frequencies on, just inside and just outside every resonance window; oracle = exact '
         'segment-wise integral in sinc form (no small-denominator branch); tolerance 1e-6 of '
         'the largest entry']
ASSUMPTIONS = ['IEEE rounding of the NumPy/LAPACK execution is measured on samples, not proved',
               'the eigh contract (H V = V D, V unitary) is validated under C02']
TRUSTED = ['oracle contract: numpy.linalg.eigh output is fed to the model as data',
           'modelled not verified: numpy broadcasting / buffer reuse inside '
           'calculate_control_matrix_from_scratch (tied by the cm_from_scratch correspondence)']

MASK = {'kind': None, 'thr': None}


def mask_from_gen():
    """the guard the translator read from the source (so the model runs with the code's guard)"""
    import os
    import re
    from ..common import LEAN
    txt = open(os.path.join(LEAN, 'FFVerif', 'Gen', 'Constants.lean')).read()
    k = re.search(r'def firstOrderMaskKind : FFVerif.MaskKind := \.(\w+)', txt)
    t = re.search(r'def firstOrderMaskThr .*? := ([-0-9.e]+)', txt)
    return (k.group(1) if k else 'absTimesDtGt'), (float(t.group(1)) if t else 1e-7)


# ------------------------------------------------------------------------------------------------
# correspondence
# ------------------------------------------------------------------------------------------------
def correspondence(ctx):
    rng = ctx.rng('corr')
    kind, thr = mask_from_gen()
    n = 40 if ctx.tier == 'quick' else 400
    # --- first_order_integral
    lines, refs = [], []
    nontrivial = 0
    for i in range(n):
        d = int(rng.integers(2, 5))
        nO = int(rng.integers(1, 6))
        ev = np.sort(rng.standard_normal(d))*rng.choice([0.0, 1.0, 10.0])
        dt = float(rng.choice([0.0, 1e-3, 0.7, 1.0, 50.0, 1e3]))*float(rng.uniform(0.5, 1.5))
        E = rng.standard_normal(nO)*rng.choice([0, 1e-9, 1e-7, 1.0])
        # put some frequencies into / next to the window
        if nO > 1:
            E[0] = -(ev[0] - ev[-1]) + rng.choice([0, 0.5, 0.99, 1.01, 3])*thr/max(dt, 1e-3)
        int_buf = np.empty((nO, d, d), dtype=complex)
        exp_buf = np.empty((nO, d, d), dtype=complex)
        ref = numeric._first_order_integral(E, ev, dt, exp_buf, int_buf).copy()
        refs.append(ref)
        lines.append(f'foi {kind} {f2b(thr)} {f2b(dt)} {nO} {d} {arr2bits(E)} {arr2bits(ev)}')
        x = np.abs((E[:, None, None] + np.subtract.outer(ev, ev)[None])*dt)
        if (x > thr).any() and (x <= thr).any():
            nontrivial += 1
        ctx.count(('foi', i, d, nO, dt), nontrivial=True)
    outs = driver(lines)
    bad = []
    for i, (o, ref) in enumerate(zip(outs, refs)):
        if not o.startswith('ok '):
            bad.append((i, o[:80]))
            continue
        got = bits2arr(o[3:], ref.shape, cplx=True)
        err = gens.abs_err(got, ref, floor=1e-300)
        if not err <= 1e-9:
            bad.append((i, err, lines[i][:200]))
    ctx.stat('corr_foi_cases', n)
    ctx.stat('corr_foi_both_branches', nontrivial)
    ctx.oblige('correspondence:first_order_integral', 'correspondence', not bad,
               f'{len(bad)} of {n} disagree: {bad[:2]}')
    if lines:
        ctx.sample({'component': 'first_order_integral', 'line': lines[0][:160]})

    # --- cm_from_scratch and filter_function
    m = 12 if ctx.tier == 'quick' else 120
    lines, refs, ffl, ffr = [], [], [], []
    for i in range(m):
        feats = gens.rand_features(rng, 0.3, ['idle', 'zero_dt', 'repeat', 'degenerate', 'neg_sens',
                                              'nontraceless_nop'])
        desc = gens.rand_desc(rng, d=int(rng.choice([2, 2, 3])), n_dt=int(rng.integers(1, 4)),
                              features=feats, basis=gens.rand_basis_spec(rng, 2, True)
                              if False else None)
        p = gens.build(desc)
        omega = gens.resonant_omegas(rng, desc, thr)[:6]
        p.diagonalize()
        ref = numeric.calculate_control_matrix_from_scratch(
            p.eigvals, p.eigvecs, p.propagators, omega, p.basis, p.n_opers, p.n_coeffs, p.dt, p.t)
        nG, d = len(p.dt), p.d
        lines.append(' '.join([
            'cm', kind, f2b(thr), str(nG), str(d), str(len(omega)), str(len(p.n_opers)),
            str(len(p.basis)), arr2bits(p.eigvals), arr2bits(p.eigvecs),
            arr2bits(p.propagators[:-1]), arr2bits(omega), arr2bits(np.array(p.basis)),
            arr2bits(p.n_opers), arr2bits(p.n_coeffs), arr2bits(p.dt), arr2bits(p.t[:-1])]))
        refs.append(ref)
        for which in ('fidelity', 'generalized'):
            ffl.append(f'ff {which} {ref.shape[0]} {ref.shape[1]} {ref.shape[2]} {arr2bits(ref)}')
            ffr.append(numeric.calculate_filter_function(ref, which))
        ctx.count(('cm', i, desc['d'], tuple(feats)))
    outs = driver(lines + ffl)
    bad = []
    for i, (o, ref) in enumerate(zip(outs[:m], refs)):
        got = bits2arr(o[3:], ref.shape, cplx=True) if o.startswith('ok ') else None
        err = gens.rel_err(got, ref) if got is not None else np.inf
        if not err <= 1e-9:
            bad.append((i, err))
    ctx.oblige('correspondence:cm_from_scratch', 'correspondence', not bad,
               f'{len(bad)} of {m} disagree: {bad[:3]}')
    bad = []
    for i, (o, ref) in enumerate(zip(outs[m:], ffr)):
        got = bits2arr(o[3:], ref.shape, cplx=True) if o.startswith('ok ') else None
        err = gens.rel_err(got, ref) if got is not None else np.inf
        if not err <= 1e-9:
            bad.append((i, err))
    ctx.oblige('correspondence:filter_function', 'correspondence', not bad,
               f'{len(bad)} of {2*m} disagree: {bad[:3]}')
    ctx.stat('corr_cm_cases', m)


# ------------------------------------------------------------------------------------------------
# failing-input search
# ------------------------------------------------------------------------------------------------
def check_cm_vs_spec(ctx, case):
    desc, omega = case['desc'], np.asarray(case['omega'], dtype=float)
    p = gens.build_used(desc, np.random.default_rng(case.get('hseed', 0)), 0.5, len(omega), omega,
                        ('phases', 'cache_phases', 'ff2'))
    B = p.get_control_matrix(omega)
    S = gens.spec_control_matrix(desc, omega)
    if B.shape != S.shape:
        ctx.count((desc['features'], desc['d'], len(desc['dt']), omega.tobytes()))
        ctx.fail('cm_vs_spec', case, {'shape': list(B.shape)}, {'shape': list(S.shape)}, {},
                 f'control matrix has shape {B.shape}, expected {S.shape} (stale value served?)')
        return np.inf
    scale = max(np.max(np.abs(S)), np.max(np.abs(B)) if np.all(np.isfinite(B)) else 0, 1e-300)
    err = float(np.max(np.abs(B - S))/scale) if np.all(np.isfinite(B)) else np.inf
    ctx.count((desc['features'], desc['d'], len(desc['dt']), omega.tobytes()))
    if not err <= 1e-6:
        j = np.unravel_index(np.argmax(np.abs(B - S)), B.shape) if np.isfinite(err) else (0, 0, 0)
        ctx.fail('cm_vs_spec', case, {'err': err, 'at': list(map(int, j))}, {'tol': 1e-6},
                 {'nonfinite': not np.isfinite(err)},
                 f'control matrix differs from the defining integral by {err:.3g} (rel. to largest '
                 f'entry) at omega={omega[j[2]]!r}, features={desc["features"]}')
    return err


def check_ff_algebra(ctx, case):
    desc, omega = case['desc'], np.asarray(case['omega'], dtype=float)
    p = gens.build(desc)
    B = p.get_control_matrix(omega)
    Fg = gens.build(desc).get_filter_function(omega, 'generalized')
    Ff = gens.build(desc).get_filter_function(omega, 'fidelity')
    probs = []
    ref_g = np.einsum('ako,blo->abklo', B.conj(), B)
    sc = max(np.max(np.abs(ref_g)), 1e-300)
    if not np.max(np.abs(Fg - ref_g))/sc <= 1e-9:
        probs.append(('generalized != conj(B)B', float(np.max(np.abs(Fg - ref_g))/sc)))
    ref_f = np.einsum('ako,bko->abo', B.conj(), B)
    if not np.max(np.abs(Ff - ref_f))/sc <= 1e-9:
        probs.append(('fidelity != sum_k conj(B)B', float(np.max(np.abs(Ff - ref_f))/sc)))
    if not (np.all(np.isfinite(Fg)) and np.all(np.isfinite(Ff))):
        probs.append(('non-finite', np.inf))
    # the same identities on a pulse object that has served analysis requests on this grid in
    # between (infidelities, decay amplitudes, cumulant function, derivative read the cached arrays)
    q = gens.build(desc)
    q.get_filter_function(omega, 'fidelity')
    S = 1/(1 + np.abs(omega))
    arng = np.random.default_rng(len(omega) + desc['d'])
    for k in arng.permutation(5)[:3]:
        try:
            if k == 0:
                ff.infidelity(q, S, omega)
                ff.infidelity(q, S, omega)
            elif k == 1:
                numeric.calculate_decay_amplitudes(q, S, omega)
            elif k == 2:
                numeric.calculate_cumulant_function(q, S, omega, second_order=bool(arng.integers(0, 2)))
            elif k == 3:
                q.get_filter_function_derivative(omega)
            else:
                numeric.error_transfer_matrix(q, S, omega)
        except Exception:   # noqa  (whether these calls succeed is the business of other properties)
            pass
    for which, ref in (('fidelity', ref_f), ('generalized', ref_g)):
        Fq = q.get_filter_function(omega, which)
        if not np.max(np.abs(Fq - ref))/sc <= 1e-9:
            probs.append((f'{which} filter function after analysis calls != conj(B)B',
                          float(np.max(np.abs(Fq - ref))/sc)))
    if not np.max(np.abs(q.get_control_matrix(omega) - B))/max(np.max(np.abs(B)), 1e-300) <= 1e-9:
        probs.append(('control matrix after analysis calls differs from a fresh one', 0))
    if not np.max(np.abs(Ff - Ff.conj().transpose(1, 0, 2)))/sc <= 1e-9:
        probs.append(('not Hermitian', 0))
    ev = np.linalg.eigvalsh(Ff.transpose(2, 0, 1))
    if ev.min() < -1e-9*sc:
        probs.append(('not PSD', float(ev.min())))
    # F(-w) = conj F(w) for Hermitian bases
    Fm = gens.build(desc).get_filter_function(-omega, 'fidelity')
    if not np.max(np.abs(Fm - Ff.conj()))/sc <= 1e-6:
        probs.append(('F(-w) != conj F(w)', float(np.max(np.abs(Fm - Ff.conj()))/sc)))
    # bound F_aa <= (sum |s| dt)^2 ||B_a||_F^2   (orthonormal basis elements)
    nops, ncoeffs, _ = gens.sorted_nops(desc)
    C = gens.basis_array(desc)
    gram = np.einsum('kij,lji->kl', C, C)
    if np.allclose(gram, np.eye(len(C)), atol=1e-9):
        bound = (np.abs(ncoeffs) @ np.asarray(desc['dt']))**2*np.einsum('aij,aij->a', nops.conj(),
                                                                         nops).real
        diag = np.einsum('aao->ao', Ff).real
        if (diag > bound[:, None]*(1 + 1e-6) + 1e-12).any():
            probs.append(('bound violated', float((diag - bound[:, None]).max())))
    ctx.count(('ff', desc['features'], desc['d'], len(desc['dt']), omega.tobytes()))
    if probs:
        ctx.fail('ff_algebra', case, probs, 'identities of the property', {'kind': probs[0][0]},
                 f'filter function identity violated: {probs[:3]} features={desc["features"]}')


CHECKS = {'cm_vs_spec': check_cm_vs_spec, 'ff_algebra': check_ff_algebra}


def replay(ctx, check, case):
    CHECKS[check](ctx, case)


def search(ctx, deep=False):
    rng = ctx.rng('search-deep' if deep else 'search')
    _, thr = mask_from_gen()
    n = {('quick', False): 60, ('quick', True): 400, ('thorough', False): 1500,
         ('thorough', True): 3000}[(ctx.tier, deep)]
    worst = 0.0
    for i in range(n):
        feats = gens.rand_features(rng, 0.3)
        d = int(rng.choice([2, 2, 3, 4])) if i % 10 else int(rng.choice([5, 8]))
        # ("every operator basis": complete orthonormal bases with non-Hermitian elements included)
        basis = gens.rand_basis_spec(rng, d, allow_incomplete=True, allow_nonherm=d <= 4)
        desc = gens.rand_desc(rng, d=d, n_dt=int(rng.integers(1, 6)), features=feats, basis=basis)
        omega = gens.resonant_omegas(rng, desc, thr)
        if i % 4 == 1:
            # a two-sided grid: every frequency together with its negative (and a repeated one)
            half = np.abs(omega[:8])
            omega = np.concatenate((-half[::-1], half, half[:1]))
        if len(omega) > 24:
            omega = np.concatenate((omega[:1], rng.choice(omega[1:], 23, replace=False)))
        case = {'desc': desc, 'omega': omega, 'hseed': int(rng.integers(0, 2**31))}
        e = check_cm_vs_spec(ctx, case)
        worst = max(worst, e if np.isfinite(e) else 0)
        if i % 3 == 0:
            check_ff_algebra(ctx, {'desc': desc, 'omega': omega[:8]})
        if i < 3:
            ctx.sample({'check': 'cm_vs_spec', 'd': d, 'n_dt': len(desc['dt']), 'features': feats,
                        'basis': basis[0], 'omega_head': omega[:4], 'rel_err': e})
    ctx.stats['worst_rel_err_cm_vs_spec'] = max(worst, ctx.stats.get('worst_rel_err_cm_vs_spec', 0))
