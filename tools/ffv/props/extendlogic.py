"""
Cross-check of the Lean decision model of `extend` / `remap`
(FFVerif/Model/ExtendLogic.lean, driver requests `extendlogic`, `remaplogic`) against the real
functions.

For random abstract inputs (cache states + basis types of the mapped pulses, options) real pulses
realising them are built, `ff.extend` is called with instrumented `PulseSequence.diagonalize`,
`PulseSequence.cache_filter_function`, `numeric.calculate_control_matrix_from_scratch`, and the
observation is written in the answer format of the driver; the same abstract inputs are piped
through `lake env lean --run Driver.lean` and the two answer lists are diffed.

Adapted from the cross-check script of the sub-agent that wrote the model: importable, the driver
is the one of tools/ffv/common.py, `run(n_random, seed)` returns the counts and the mismatches.
"""
import collections
import itertools
import random
import warnings

import numpy as np

import filter_functions as ff
from filter_functions import numeric
from filter_functions.pulse_sequence import PulseSequence

warnings.simplefilter('ignore')

I2, X, Y, Z = ff.util.paulis
GRIDS = [np.linspace(0.1, 1.0, 4), np.linspace(0.2, 2.0, 4), np.linspace(0.3, 3.0, 4)]
DIAG_ATTRS = ('eigvals', 'eigvecs', 'propagators')


def grid_id(w):
    if w is None:
        return None
    for i, g in enumerate(GRIDS):
        if np.array_equal(w, g):
            return i
    return 'unknown'


# ---------------------------------------------------------------------------------------------
# bases
def rot_basis(n):
    """a custom orthonormal basis of n qubits (rotated Pauli basis), btype 'Custom'"""
    th = 0.37
    U1 = np.array([[np.cos(th), -np.sin(th)], [np.sin(th), np.cos(th)]], dtype=complex)
    U = U1
    for _ in range(n - 1):
        U = np.kron(U, U1)
    P = np.asarray(ff.Basis.pauli(n))
    return ff.Basis([U @ p @ U.conj().T for p in P])


def make_basis(bt, n, variant):
    if bt == 'p':
        return ff.Basis.pauli(n)
    if bt == 'g':
        return ff.Basis.ggm(2**n)
    # 'c': a genuinely custom basis, or a reordered Pauli basis that keeps the LABEL 'Pauli'
    if variant == 0:
        return rot_basis(n)
    B = ff.Basis.pauli(n)
    perm = list(range(len(B)))
    perm[1], perm[2] = perm[2], perm[1]
    B2 = B[perm]
    assert B2.btype == 'Pauli' and not (B2 == ff.Basis.pauli(n))
    return B2


# ---------------------------------------------------------------------------------------------
# pulses realising an abstract state
def fresh_single(bt, variant, k):
    ops = [X, Y, Z]
    c = ops[k % 3]
    return PulseSequence([[c, [np.pi/2, 0.3 + 0.1*k], 'C']],
                         [[X, [1, 1], 'NX'], [Z, [1, 0.5], 'NZ']],
                         [1.0, 1.5], basis=make_basis(bt, 1, variant))


def fresh_double(bt, variant):
    XY, ZI = ff.util.tensor(X, Y), ff.util.tensor(Z, I2)
    return PulseSequence([[XY, [np.pi/2, 0.4], 'CXY']],
                         [[ZI, [1, 1], 'NZI'], [ff.util.tensor(I2, X), [1, 0.5], 'NIX']],
                         [1.0, 1.5], basis=make_basis(bt, 2, variant))


def realise(p, diag, tp, cm, om, rng):
    """bring pulse `p` into the cache state (diag, tp, cm, omega id) with the public interface:
    `cache_control_matrix`, `diagonalize`, `cleanup`, the setters of `total_propagator`/`omega`"""
    if cm:
        g = om if om is not None else 0
        if om is not None and rng.random() < 0.15:
            # stale: control matrix computed on another grid (same length), omega reassigned below
            g = (om + 1) % len(GRIDS)
        p.cache_control_matrix(GRIDS[g])
    elif diag or tp:
        p.diagonalize()
    if not diag:
        p.cleanup('conservative')
    if not tp:
        p.total_propagator = None
    p.omega = None if om is None else GRIDS[om]
    st = state_of(p)
    assert (st['diag'], st['tp'], st['cm'], st['om']) == (bool(diag), bool(tp), bool(cm), om), st


def state_of(p):
    return dict(diag=all(p.is_cached(a) for a in DIAG_ATTRS),
                anydiag=any(p.is_cached(a) for a in DIAG_ATTRS),
                tp=p.is_cached('total_propagator'), cm=p.is_cached('control_matrix'),
                ff=p.is_cached('filter_function'), om=grid_id(p.omega),
                phases=p.is_cached('total_phases'), tpl=p.is_cached('total_propagator_liouville'))


# ---------------------------------------------------------------------------------------------
# instrumentation
class Recorder:
    def __init__(self):
        self.diag_calls = []    # (object, did_work)
        self.cff_calls = []     # (object, filter_function is None)
        self.cm_calls = []      # (eigvals array, number of noise operators)

    def __enter__(self):
        self._diag = PulseSequence.diagonalize
        self._cff = PulseSequence.cache_filter_function
        self._cm = numeric.calculate_control_matrix_from_scratch
        rec = self

        def diagonalize(self_):
            work = not all(self_.is_cached(a) for a in DIAG_ATTRS)
            rec.diag_calls.append((self_, work))
            return rec._diag(self_)

        def cache_filter_function(self_, omega, control_matrix=None, filter_function=None,
                                  *args, **kwargs):
            rec.cff_calls.append((self_, filter_function is None))
            return rec._cff(self_, omega, control_matrix, filter_function, *args, **kwargs)

        def calculate_control_matrix_from_scratch(eigvals, eigvecs, propagators, omega, basis,
                                                  n_opers, *args, **kwargs):
            rec.cm_calls.append((eigvals, len(n_opers)))
            return rec._cm(eigvals, eigvecs, propagators, omega, basis, n_opers, *args, **kwargs)

        PulseSequence.diagonalize = diagonalize
        PulseSequence.cache_filter_function = cache_filter_function
        numeric.calculate_control_matrix_from_scratch = calculate_control_matrix_from_scratch
        return self

    def __exit__(self, *exc):
        PulseSequence.diagonalize = self._diag
        PulseSequence.cache_filter_function = self._cff
        numeric.calculate_control_matrix_from_scratch = self._cm
        return False


def b01(b):
    return '1' if b else '0'


def bits(l):
    return ''.join(b01(b) for b in l) if l else '-'


def optstr(v):
    return '-' if v is None else str(int(v))


# ---------------------------------------------------------------------------------------------
# extend
def extend_request(ps, cd, cf, og, add, early):
    pl = '|'.join(f"{b01(d)},{b01(c)},{optstr(o)},{bt},{b01(t)}" for (d, t, c, o, bt, _v) in ps)
    return f"extendlogic {pl} {optstr(cd)} {optstr(cf)} {optstr(og)} {b01(add)} {b01(early)}"


def observe_extend(pulses, mapping, N, n_add, cd, cf, og, add):
    """call the real extend and write the observation as a driver answer line"""
    kwargs = dict(N=N,
                  cache_diagonalization=None if cd is None else bool(cd),
                  cache_filter_function=None if cf is None else bool(cf),
                  omega=None if og is None else GRIDS[og])
    if add:
        kwargs['additional_noise_Hamiltonian'] = add
    with Recorder() as rec:
        try:
            res = ff.extend(mapping, **kwargs)
        except Exception as e:  # noqa
            msg = str(e)
            site = ('omega' if 'could not be inferred' in msg else
                    'diag' if 'cache_diagonalization set to False' in msg else 'none'
                    if isinstance(e, TypeError) else 'other:' + msg[:60])
            return f"err {type(e).__name__}:{site}", None
    if any(res is p for p in pulses):
        assert not rec.diag_calls and not rec.cff_calls and not rec.cm_calls
        return "ok same", res
    st = state_of(res)
    assert st['diag'] == st['anydiag']
    assert st['cm'] == st['ff'], st
    is_pauli = res.basis.btype == 'Pauli'
    res_diag_calls = [w for (o, w) in rec.diag_calls if o is res]
    res_cff = [fnone for (o, fnone) in rec.cff_calls if o is res]
    assert len(res_cff) <= 1
    assert all(o is res for (o, _) in rec.cff_calls)
    # filter function
    if not st['cm']:
        assert not res_cff
        ffs = 'n'
    else:
        assert len(res_cff) == 1 and st['om'] not in (None, 'unknown'), (st, res_cff)
        ffs = ('r:' if res_cff[0] else 'e:') + str(st['om'])
    recomputed_ff = bool(res_cff) and res_cff[0]
    # diagonalization
    if not st['diag']:
        assert not any(res_diag_calls)
        dg = 'n'
    else:
        dg = 'r' if any(res_diag_calls) else 'e'
    # final cache_diagonalization
    if is_pauli:
        want = dg == 'e'
    else:
        # explicit newpulse.diagonalize() + the one inside get_control_matrix
        n_explicit = len(res_diag_calls) - (1 if recomputed_ff else 0)
        assert n_explicit in (0, 1), (res_diag_calls, recomputed_ff)
        want = n_explicit == 1
    tp = st['tp'] and not st['diag']
    # control matrix calls
    res_eig = res._eigvals
    n_all = len(res.n_opers)
    addrows = False
    full = False
    icm = [False]*len(pulses)
    for eig, n in rec.cm_calls:
        if eig is res_eig:
            if n == n_add and n < n_all:
                addrows = True
            else:
                assert n == n_all
                full = True
        else:
            hit = [i for i, p in enumerate(pulses) if p._eigvals is eig]
            assert len(hit) == 1, 'control matrix call on unknown object'
            icm[hit[0]] = True
    assert full == recomputed_ff
    idiag = [any(w for (o, w) in rec.diag_calls if o is p) for p in pulses]
    assert all(any(o is q for q in pulses) or o is res for (o, _) in rec.diag_calls)
    line = (f"ok want={b01(want)} diag={dg} tp={b01(tp)} ff={ffs} add={b01(addrows)} "
            f"idiag={bits(idiag)} icm={bits(icm)}")
    return line, res


def random_pulse_state(rng, bt=None):
    diag = rng.random() < 0.5
    cm = rng.random() < 0.55
    r = rng.random()
    tp = (diag or cm) if r < 0.6 else (rng.random() < 0.5)
    r = rng.random()
    if cm:
        om = None if r < 0.08 else (0 if r < 0.75 else rng.choice([1, 2]))
    else:
        om = None if r < 0.5 else (0 if r < 0.85 else 1)
    if bt is None:
        r = rng.random()
        bt = 'p' if r < 0.7 else ('g' if r < 0.85 else 'c')
    return (diag, tp, cm, om, bt, rng.randrange(2))


def random_extend_case(rng):
    early = rng.random() < 0.06
    n = 1 if early else rng.choice([1, 2, 2, 2, 3])
    mode = rng.random()
    # make all-Pauli inputs frequent: they are where most of the logic lives
    allp = mode < 0.6
    ps = [random_pulse_state(rng, 'p' if allp else None) for _ in range(n)]
    cd = rng.choice([None, None, 0, 1])
    cf = rng.choice([None, None, 0, 1, 1])
    og = rng.choice([None, None, 0, 1])
    add = rng.random() < 0.35
    return ps, cd, cf, og, add, early


def build_extend_case(case, rng):
    ps, cd, cf, og, add, early = case
    n = len(ps)
    if early:
        qubits = [0]
        N = rng.choice([None, 1])
    else:
        qubits = rng.sample(range(3), n)
        N = rng.choice([None, 3])
        if n == 1 and qubits == [0] and N is None:
            N = 2
    Neff = N if N is not None else max(qubits) + 1
    pulses = []
    for k, (diag, tp, cm, om, bt, variant) in enumerate(ps):
        p = fresh_single(bt, variant, k)
        realise(p, diag, tp, cm, om, rng)
        pulses.append(p)
    mapping = [(p, q) for p, q in zip(pulses, qubits)]
    addH = None
    if add:
        op = ff.util.tensor(*([Y]*Neff))
        addH = [[op, [1.0, 0.7], 'ADD']]
    return pulses, mapping, N, addH


def branch_of(line):
    if line.startswith('err'):
        return line
    if line == 'ok same':
        return line
    f = dict(kv.split('=') for kv in line.split()[1:])
    return f"diag={f['diag']} ff={f['ff'][0]} add={f['add']} tp={f['tp']}"


# ---------------------------------------------------------------------------------------------
# remap
def remap_request(s):
    diag, tp, cm, om, bt, ph, f, tpl, _v = s
    return ("remaplogic " + ','.join([b01(diag), b01(tp), b01(cm), optstr(om), bt, b01(ph),
                                       b01(f), b01(tpl)]))


def random_full_state(rng):
    r = rng.random()
    bt = 'p' if r < 0.6 else ('g' if r < 0.8 else 'c')
    om = rng.choice([None, 0, 0, 1])
    return (rng.random() < 0.5, rng.random() < 0.5, rng.random() < 0.5, om, bt,
            rng.random() < 0.5, rng.random() < 0.5, rng.random() < 0.5, rng.randrange(2))


def realise_full(s):
    """two-qubit pulse in the given state.  Everything is cached first, then single attributes are
    reset (the setters where they exist, the private attribute otherwise: not every combination is
    reachable with the caching methods)."""
    diag, tp, cm, om, bt, ph, f, tpl, variant = s
    p = fresh_double(bt, variant)
    p.cache_filter_function(GRIDS[om if om is not None else 0])
    if not diag:
        p.cleanup('conservative')
    if not tp:
        p.total_propagator = None
    if not cm:
        p._control_matrix = None
    if not ph:
        p._total_phases = None
    if not f:
        p._filter_function = None
    if not tpl:
        p.total_propagator_liouville = None
    if om is None:
        p.omega = None
    return p


def observe_remap(p, bt):
    with Recorder() as rec:
        r = ff.remap(p, (1, 0))
    assert r is not p
    st = state_of(r)
    assert st['diag'] == st['anydiag']
    assert all(o is r for (o, _) in rec.diag_calls)
    lazy = len(rec.diag_calls) > 0
    assert not rec.cm_calls
    return ("ok " + ','.join([b01(st['diag']), b01(st['tp']), b01(st['cm']), optstr(st['om']), bt,
                               b01(st['phases']), b01(st['ff']), b01(st['tpl'])])
            + f" lazy={b01(lazy)}"), r


# ---------------------------------------------------------------------------------------------
def run_driver(requests):
    from ..common import driver
    return driver(requests) if requests else []


# the concrete inputs of the `example`s in Props/C05d.lean: (pulses (diag,tp,cm,om,bt), cd, cf,
# og, add, early)
FIXED = [
    ([(1, 1, 1, 0, 'p'), (1, 1, 1, 0, 'p')], None, None, None, 0, 0),
    ([(1, 1, 1, 0, 'p'), (1, 1, 1, 0, 'p')], None, None, 1, 0, 0),
    ([(1, 1, 1, 0, 'p'), (1, 1, 1, 1, 'p')], None, None, None, 0, 0),
    ([(1, 1, 1, 0, 'p'), (1, 1, 0, 0, 'p')], None, None, None, 0, 0),
    ([(1, 1, 1, 0, 'p'), (1, 1, 1, 1, 'p')], None, 1, None, 0, 0),
    ([(0, 0, 0, 0, 'p'), (0, 0, 0, 0, 'p')], None, 1, None, 0, 0),
    ([(0, 0, 0, None, 'p'), (0, 0, 0, None, 'p')], 0, 1, 0, 0, 0),
    ([(0, 1, 0, None, 'p'), (0, 1, 0, None, 'p')], 0, 1, 0, 0, 0),
    ([(0, 0, 0, None, 'p'), (0, 0, 0, None, 'p')], 0, 0, None, 1, 0),
    ([(0, 0, 0, None, 'p'), (0, 0, 0, None, 'p')], None, 1, 2, 1, 0),
    ([(1, 1, 1, 0, 'p'), (1, 1, 1, 0, 'g')], None, None, None, 0, 0),
    ([(1, 1, 1, 0, 'c'), (1, 1, 1, 0, 'c')], 0, None, None, 0, 0),
    ([(0, 0, 0, None, 'g'), (0, 0, 0, None, 'p')], None, None, None, 1, 0),
    ([(1, 1, 0, None, 'g'), (1, 1, 0, None, 'g')], None, 0, None, 0, 0),
    ([(0, 0, 0, None, 'p')], 0, 1, None, 1, 1),
    ([(0, 0, 1, None, 'p'), (1, 1, 1, 0, 'p')], None, None, None, 0, 0),
    ([(1, 1, 1, 0, 'p')], 1, 1, 1, 1, 0),
]


def run(n_random, seed):
    rng = random.Random(seed)
    np.random.seed(seed)

    # ---- extend on single-qubit pulses
    cases = [([p + (0,) for p in ps], cd, cf, og, bool(add), bool(early))
             for (ps, cd, cf, og, add, early) in FIXED]
    cases += [random_extend_case(rng) for _ in range(n_random)]
    requests, observed = [], []
    for case in cases:
        pulses, mapping, N, addH = build_extend_case(case, rng)
        ps, cd, cf, og, add, early = case
        requests.append(extend_request(ps, cd, cf, og, add, early))
        line, res = observe_extend(pulses, mapping, N, 1, cd, cf, og, addH)
        observed.append(line)

    # ---- remap on a two-qubit pulse
    rcases = [random_full_state(rng) for _ in range(max(200, n_random // 4))]
    rreq, robs = [], []
    for s in rcases:
        p = realise_full(s)
        before = state_of(p)
        line, r = observe_remap(p, s[4])
        assert state_of(p) == before, 'remap changed its input'
        rreq.append(remap_request(s))
        robs.append(line)

    # ---- extend with a two-qubit pulse mapped to unsorted qubits (goes through remap) plus a
    # single-qubit pulse: model = extendLogic after remapLogic
    ccases = []
    for _ in range(max(100, n_random // 8)):
        s = random_full_state(rng)
        if rng.random() < 0.6:
            s = s[:4] + ('p',) + s[5:]
        q = random_pulse_state(rng, 'p' if rng.random() < 0.7 else None)
        cd = rng.choice([None, None, 0, 1])
        cf = rng.choice([None, None, 0, 1, 1])
        og = rng.choice([None, None, 0, 1])
        add = rng.random() < 0.3
        ccases.append((s, q, cd, cf, og, add))
    cobs, cpending = [], []
    for (s, q, cd, cf, og, add) in ccases:
        p2 = realise_full(s)
        p1 = fresh_single(q[4], q[5], 1)
        realise(p1, q[0], q[1], q[2], q[3], rng)
        # what remap makes of p2 is recomputed inside extend; the remapped object is not
        # accessible, so its diagonalize calls are attributed by exclusion (see below)
        addH = [[ff.util.tensor(Y, Y, Y), [1.0, 0.7], 'ADD']] if add else None
        kwargs = dict(cache_diagonalization=None if cd is None else bool(cd),
                      cache_filter_function=None if cf is None else bool(cf),
                      omega=None if og is None else GRIDS[og])
        if addH:
            kwargs['additional_noise_Hamiltonian'] = addH
        remapped = []
        orig_remap = ff.pulse_sequence.remap

        def spy_remap(*a, **k):
            r = orig_remap(*a, **k)
            remapped.append(r)
            return r
        ff.pulse_sequence.remap = spy_remap
        try:
            with Recorder() as rec:
                try:
                    res = ff.extend([(p1, 1), (p2, (2, 0))], **kwargs)
                    err = None
                except Exception as e:  # noqa
                    err = e
            n_remap_diag = len(rec.diag_calls)
        finally:
            ff.pulse_sequence.remap = orig_remap
        assert len(remapped) == 1
        # replay on fresh objects in two steps so that the observation code of above applies:
        p2b = realise_full(s)
        p1b = fresh_single(q[4], q[5], 1)
        realise(p1b, q[0], q[1], q[2], q[3], rng)
        rline, r2 = observe_remap(p2b, s[4])
        line, res_b = observe_extend([r2, p1b], [(r2, (0, 2)), (p1b, 1)], None, 1, cd, cf, og, addH)
        # one-step and two-step calls agree on the outcome
        if err is not None:
            assert line.startswith('err ' + type(err).__name__), (line, err)
        else:
            assert not line.startswith('err')
            assert state_of(res) == state_of(res_b), (state_of(res), state_of(res_b))
        cobs.append(line)
        cpending.append((remap_request(s), q, cd, cf, og, add))

    # ---- the model
    answers = run_driver(requests + rreq + [c[0] for c in cpending])
    a_ext = answers[:len(requests)]
    a_rm = answers[len(requests):len(requests) + len(rreq)]
    a_c1 = answers[len(requests) + len(rreq):]
    # second stage for the composed cases
    creq = []
    for ans, (_, q, cd, cf, og, add) in zip(a_c1, cpending):
        assert ans.startswith('ok '), ans
        f = ans.split()[1].split(',')
        diag, tp, cm, om, bt = f[0], f[1], f[2], f[3], f[4]
        pl = (f"{diag},{cm},{om},{bt},{tp}|"
              f"{b01(q[0])},{b01(q[2])},{optstr(q[3])},{q[4]},{b01(q[1])}")
        creq.append(f"extendlogic {pl} {optstr(cd)} {optstr(cf)} {optstr(og)} {b01(add)} 0")
    a_c2 = run_driver(creq)

    mismatches = []
    for kind, reqs, obs, ans in (('extend', requests, observed, a_ext),
                                 ('remap', rreq, robs, a_rm),
                                 ('extend-after-remap', creq, cobs, a_c2)):
        for r, o, a in zip(reqs, obs, ans):
            if o != a:
                mismatches.append({'kind': kind, 'request': r, 'implementation': o, 'model': a})
    counts = collections.Counter('extend: ' + branch_of(o) for o in observed)
    counts.update(collections.Counter('extend-after-remap: ' + branch_of(o) for o in cobs))
    counts.update({'remap': len(robs)})
    return len(requests) + len(rreq) + len(creq), dict(counts), mismatches
