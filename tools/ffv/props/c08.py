"""C08 — infidelity, decay amplitudes and cumulant trace are mutually consistent."""
import numpy as np

import filter_functions as ff
from filter_functions import numeric, util

from .. import gens
from ..common import arr2bits, bits2arr, corr_script, driver

THEOREMS = '''integrate_spec integrate_linear integrate_nonneg decay_amplitudes_entries gammaEntry_eq
decay_amplitudes_parsimonious single_spectrum_is_broadcast subset_is_slice trace_tensor_completeness
neg_trace_cumulant infidelity_eq_neg_trace_cumulant infidelity_traceless_branch
total_infidelity_nonneg pulse_correlations_sum_to_total
infidelity_congr_cm infidelity_lipschitz_cm absIntegral_is_integrate infidelity_scaling_law
infidelity_perm_opers infidelity_perm_opers_entries infidelity_traceless_noise_opers
infidelity_branches_agree '''.split()
LEAN_MODULES = ['FFVerif.Props.C08', 'FFVerif.Props.C08Inv', 'FFVerif.Props.C08Integrand', 'FFVerif.Props.C09EtmFnShapes']
THEOREMS = THEOREMS + ['FFVerif.C09.decay_amplitudes_posSemidef', 'FFVerif.C09.summed_decay_amplitudes_posSemidef']   # PSD decay amplitudes for non-negative spectra
# module C08Integrand (models Integrand / IntegrandShape): every branch of _get_integrand, filter-function path =
# control-matrix path (also in the parsimonious loop and for pulse correlations), correlations sum to the total,
# exactly the documented rejections
THEOREMS = THEOREMS + [
    'FFVerif.C08Integrand.integrand_entries_cm_total', 'FFVerif.C08Integrand.integrand_entries_cm_correlations_fidelity',
    'FFVerif.C08Integrand.integrand_entries_cm_correlations_generalized', 'FFVerif.C08Integrand.integrand_entries_ff_total',
    'FFVerif.C08Integrand.integrand_entries_ff_correlations', 'FFVerif.C08Integrand.filter_function_entries',
    'FFVerif.C08Integrand.single_spectrum_is_broadcast', 'FFVerif.C08Integrand.integrand_ff_path_eq_cm_path',
    'FFVerif.C08Integrand.getIntegrand_ff_path_eq_cm_path', 'FFVerif.C08Integrand.integrand_ff_slice_eq_cm_pair',
    'FFVerif.C08Integrand.decay_amplitudes_path_independent', 'FFVerif.C08Integrand.decay_amplitudes_correlations_path_independent',
    'FFVerif.C08Integrand.decay_amplitudes_correlations_entries', 'FFVerif.C08Integrand.infidelity_path_independent',
    'FFVerif.C08Integrand.infidelityFromCM_eq_cm_path', 'FFVerif.C08Integrand.integrand_correlations_sum_to_total',
    'FFVerif.C08Integrand.integrand_ff_correlations_sum_to_total', 'FFVerif.C08Integrand.decay_amplitudes_correlations_sum_to_total',
    'FFVerif.C08Integrand.integrand_shape_documented', 'FFVerif.C08Integrand.integrand_rejects_iff',
    'FFVerif.C08Integrand.index_check_iff', 'FFVerif.C08Integrand.frequency_axes_rejected_iff',
    'FFVerif.C08Integrand.integrand_neither_source', 'FFVerif.C08Integrand.integrand_both_sources_fidelity',
    'FFVerif.C08Integrand.einsum_strings']
PINS = ['pinIntegrate', 'pinIdentityElementIndex', 'C08_infidelity_source_shape', 'pinGetIntegrand']
GEN_SITES = ['einsum:numeric__get_integrand_', 'einsum:numeric_infidelity_0',
             'const:numeric.infidelity', 'const:numeric.calculate_decay_amplitudes']
COMPONENTS = ['integrate', 'four_element_traces']
RULES = ['correspondence: util.integrate and Basis.four_element_traces vs the Lean model; search: for '
         'random pulses (traceless / non-traceless bases and noise operators, d = 2,3), the three '
         'spectrum shapes, one- and two-sided non-uniform grids: decay amplitudes = trapezoid of '
         'conj(B) S B / 2π (independent numpy evaluation), infidelity = -tr K / d² of the cumulant '
         'function (pairwise for cross-spectra), independence of memory_parsimonious / cached '
         'generalized FF vs control-matrix path / cache_intermediates / show_progressbar, subsets and '
         'orders of identifiers = slices, pulse-correlation infidelities sum to the total, total '
         'infidelity >= 0 for PSD spectra; distinct = input hash']
ASSUMPTIONS = ['floating point not modelled']
TRUSTED = ['modelled not verified: option plumbing of calculate_decay_amplitudes (search '
           'enumerates the option matrix)']


def correspondence(ctx):
    # _get_integrand (all branches, recorded caller arguments, argument shapes / exception classes) and the
    # path selection of calculate_decay_amplitudes / infidelity in every cache state vs the models Integrand /
    # IntegrandShape
    corr_script(ctx, 'corr_c08integrand', [])
    rng = ctx.rng('corr')
    lines, refs, comp = [], [], []
    for i in range(6 if ctx.tier == 'quick' else 60):
        n = int(rng.integers(2, 12))
        x = np.sort(rng.uniform(-3, 3, n))
        if i % 3 == 1:
            # nearly uniform / tiny spacings: a grid in small units must be integrated like any other
            x = np.sort(10.0**rng.uniform(-1, 1, n))*10.0**rng.uniform(-13, -7)
        elif i % 3 == 2:
            x = np.linspace(0, 1, n)*10.0**rng.uniform(-12, 3)
            x[-1] *= 1 + 10.0**rng.uniform(-7, -1)
        f = rng.standard_normal(n) + 1j*rng.standard_normal(n)
        lines.append(f'integrate {n} {arr2bits(x)} {arr2bits(f)}')
        refs.append(np.array([util.integrate(f, x)]))
        comp.append('integrate')
        d = int(rng.choice([2, 2, 3]))
        C = gens.rotated_basis(rng, d, bool(rng.integers(0, 2)))
        b = ff.Basis(C, traceless=None)
        T = np.asarray(b.four_element_traces.todense())
        lines.append(f'traces4 {len(C)} {d} {arr2bits(C.astype(complex))}')
        refs.append(T.astype(complex))
        comp.append('four_element_traces')
        ctx.count(('corr', i, n, d))
    outs = driver(lines)
    bad = {c: [] for c in COMPONENTS}
    for ln, ref, c, o in zip(lines, refs, comp, outs):
        got = bits2arr(o[3:], ref.shape, cplx=True) if o.startswith('ok ') else None
        err = gens.abs_err(got, ref, 1e-300 if c == 'integrate' else 1.0) if got is not None else np.inf
        if not err <= 1e-9:
            bad[c].append((ln[:40], err, o[:30]))
    for c, v in bad.items():
        ctx.oblige('correspondence:' + c, 'correspondence', not v, f'{len(v)} disagree: {v[:2]}')
    ctx.sample({'request': lines[0][:100]})


def spectrum(rng, shape, n_nops, omega):
    base = 1/(1 + np.abs(omega))**rng.uniform(0.5, 2)
    if shape == 1:
        return base*rng.uniform(0.5, 2)
    if shape == 2:
        return base[None]*rng.uniform(0.5, 2, (n_nops, 1))
    A = rng.standard_normal((n_nops, n_nops)) + 1j*rng.standard_normal((n_nops, n_nops))
    return (A @ A.conj().T)[:, :, None]*base[None, None]


def check_consistency(ctx, case):
    desc = case['desc']
    rng = np.random.default_rng(case['seed'])
    omega = np.asarray(case['omega'], dtype=float)*float(case.get('scale', 1.0))
    fl = 1e-12*min(1.0, float(case.get('scale', 1.0)))**2
    shape = int(case['shape'])
    d = desc['d']
    n = len(desc['n_opers'])
    S = spectrum(rng, shape, n, omega)
    p = gens.build(desc)
    B = p.get_control_matrix(omega)
    probs = []
    # decay amplitudes vs trapezoid
    G = numeric.calculate_decay_amplitudes(gens.build(desc), S, omega)
    if shape == 3:
        integrand = np.einsum('ako,abo,blo->abklo', B.conj(), S, B)
    else:
        Sb = np.broadcast_to(S, (n, len(omega)))
        integrand = np.einsum('ako,ao,alo->aklo', B.conj(), Sb, B)
    # (the package keeps the real part: for the correct two-sided spectrum the integrand is real)
    integrand = integrand.real
    ref = np.trapz(integrand, omega, axis=-1)/(2*np.pi)
    e = gens.abs_err(G, ref, fl)
    if not e <= 1e-9:
        probs.append(f'decay amplitudes differ from the trapezoid of conj(B) S B / 2pi by {e:.3g}')
    # infidelity = -tr K / d^2
    hrng = np.random.default_rng(case['seed'] + 1)
    pu = gens.build_used(desc, hrng, 0.5, len(omega))
    infid = ff.infidelity(pu, S, omega)
    again = ff.infidelity(pu, S, omega)
    if not gens.abs_err(again, infid, fl) <= 1e-12:
        probs.append('a second infidelity request on the same pulse gives another value')
    fresh = ff.infidelity(gens.build(desc), S, omega)
    if not gens.abs_err(infid, fresh, fl) <= 1e-9:
        probs.append('infidelity of a pulse with a cache history differs from a fresh pulse')
    K = numeric.calculate_cumulant_function(pu, S, omega)
    trK = -np.trace(K, axis1=-2, axis2=-1)/d**2
    e = gens.abs_err(infid, trK, fl)
    if not e <= 1e-9:
        probs.append(f'infidelity differs from -tr K/d^2 by {e:.3g}')
    # option independence
    opts = []
    q = gens.build(desc)
    q.cache_filter_function(omega, which='generalized')
    opts.append(('cached generalized FF', numeric.calculate_decay_amplitudes(q, S, omega)))
    opts.append(('memory parsimonious', numeric.calculate_decay_amplitudes(
        gens.build(desc), S, omega, memory_parsimonious=True)))
    opts.append(('memory parsimonious + cached FF', numeric.calculate_decay_amplitudes(
        q, S, omega, memory_parsimonious=True)))
    opts.append(('cache_intermediates', numeric.calculate_decay_amplitudes(
        gens.build(desc), S, omega, cache_intermediates=True)))
    for nm, val in opts:
        e = gens.abs_err(val, G, fl)
        if not e <= 1e-9:
            probs.append(f'decay amplitudes depend on option "{nm}" ({e:.3g})')
    i2 = ff.infidelity(gens.build(desc), S, omega, cache_intermediates=True)
    if not gens.abs_err(i2, infid, fl) <= 1e-9:
        probs.append('infidelity depends on cache_intermediates')
    # subsets / orders of identifiers
    ids_sorted = sorted(desc['n_ids'])
    k = int(rng.integers(1, n + 1))
    sel = list(rng.permutation(ids_sorted)[:k])
    idx = [ids_sorted.index(i) for i in sel]
    if shape == 1:
        Ss = S
    elif shape == 2:
        Ss = S[idx]
    else:
        Ss = S[np.ix_(idx, idx)]
    Gs = numeric.calculate_decay_amplitudes(gens.build(desc), Ss, omega, n_oper_identifiers=sel)
    Is = ff.infidelity(gens.build(desc), Ss, omega, n_oper_identifiers=sel)
    Ks = numeric.calculate_cumulant_function(gens.build(desc), Ss, omega, n_oper_identifiers=sel)
    if shape == 3:
        want = (G[np.ix_(idx, idx)], infid[np.ix_(idx, idx)], K[np.ix_(idx, idx)])
    else:
        want = (G[idx], infid[idx], K[idx])
    for nm, a, b in zip(('decay amplitudes', 'infidelity', 'cumulant function'), (Gs, Is, Ks), want):
        if np.shape(a) != np.shape(b) or not gens.abs_err(a, b, fl) <= 1e-9:
            probs.append(f'{nm} for identifiers {sel} is not the slice of the full result')
    # PSD spectrum => total infidelity >= 0
    tot = np.sum(infid).real
    if tot < -1e-12:
        probs.append(f'total infidelity negative ({tot:.3g})')
    ctx.count((tuple(desc['features']), d, shape, omega.tobytes(), case['seed']), nontrivial=True)
    if probs:
        ctx.fail('infidelity_consistency', case, probs, 'mutual consistency', {},
                 f'd={d} shape={shape} features={desc["features"]} basis={desc["basis"][0]}: '
                 f'{probs[:3]}')


def check_pc_sum(ctx, case):
    rng = np.random.default_rng(case['seed'])
    d = int(case['d'])
    tl_basis = bool(case['traceless_basis'])
    basis = ('pauli',) if (d == 2 and tl_basis) else \
        ('custom', gens.rotated_basis(rng, d, tl_basis), tl_basis, 'Custom')
    nops = np.array([gens.rand_herm(rng, d, traceless=bool(case['traceless_nops'])) for _ in range(2)])
    cops = np.array([gens.rand_herm(rng, d)])
    descs = []
    for _ in range(int(case['n_pulses'])):
        n_dt = int(rng.integers(1, 3))
        descs.append(dict(d=d, c_opers=cops, c_ids=['C'], c_coeffs=rng.standard_normal((1, n_dt)),
                          n_opers=nops, n_ids=['A', 'B'], n_coeffs=rng.uniform(0.5, 1.5, (2, n_dt)),
                          dt=rng.uniform(0.2, 1, n_dt), basis=basis, features=[]))
    omega = np.sort(rng.uniform(0.1, 6, 12))
    shape = int(case['shape'])
    S = spectrum(rng, shape, 2, omega)
    c = ff.concatenate([gens.build(x) for x in descs], calc_pulse_correlation_FF=True, omega=omega)
    tot = ff.infidelity(c, S, omega)
    pc = ff.infidelity(c, S, omega, which='correlations')
    # a second request on the same object (cached pulse-correlation quantities are reused) and the
    # total again afterwards
    pc2 = ff.infidelity(c, S, omega, which='correlations')
    tot2 = ff.infidelity(c, S, omega)
    e = max(gens.abs_err(pc.sum(axis=(0, 1)), tot, 1e-12), gens.abs_err(pc2, pc, 1e-12),
            gens.abs_err(tot2, tot, 1e-12))
    ctx.count(('pc', case['seed'], d, tl_basis, shape))
    if not e <= 1e-9:
        ctx.fail('pc_infidelities_sum', case, {'err': e}, 0, {},
                 f'pulse-correlation infidelities do not sum to the total ({e:.3g}); d={d} '
                 f'traceless basis={tl_basis} traceless noise ops={case["traceless_nops"]}')


CHECKS = {'infidelity_consistency': check_consistency, 'pc_infidelities_sum': check_pc_sum}


def replay(ctx, check, case):
    CHECKS[check](ctx, case)


def search(ctx, deep=False):
    rng = ctx.rng('deep' if deep else 'search')
    n = {('quick', False): 18, ('quick', True): 120, ('thorough', False): 300,
         ('thorough', True): 900}[(ctx.tier, deep)]
    for i in range(n):
        feats = gens.rand_features(rng, 0.3, ['idle', 'zero_dt', 'nontraceless_nop', 'neg_sens',
                                              'degenerate'])
        d = int(rng.choice([2, 2, 3]))
        bs = [('ggm',), ('custom', gens.rotated_basis(rng, d, True), True, 'Custom'),
              ('custom', gens.rotated_basis(rng, d, False), False, 'Custom')]
        bs.append(('custom', gens.signed_shuffled_basis(rng, d, True), True, 'Custom'))
        if d == 2:
            bs.append(('pauli',))
        desc = gens.rand_desc(rng, d=d, n_dt=int(rng.integers(1, 4)), n_n=int(rng.integers(1, 4)),
                              features=feats, basis=bs[int(rng.integers(0, len(bs)))])
        omega = gens.rand_omega_grid(rng, int(rng.integers(4, 14)), two_sided=bool(rng.integers(0, 2)))
        check_consistency(ctx, {'desc': desc, 'omega': omega, 'shape': int(rng.integers(1, 4)),
                                'seed': int(rng.integers(0, 2**31)),
                                'scale': [1.0, 1.0, 1e-10, 1e-7, 1e3][int(rng.integers(0, 5))]})
        if i % 3 == 0:
            check_pc_sum(ctx, {'seed': int(rng.integers(0, 2**31)), 'd': d,
                               'traceless_basis': bool(rng.integers(0, 2)),
                               'traceless_nops': bool(rng.integers(0, 2)),
                               'n_pulses': int(rng.integers(2, 4)), 'shape': int(rng.integers(1, 4))})
        if i < 2:
            ctx.sample({'d': d, 'features': feats, 'basis': desc['basis'][0]})
