"""C15 — Liouville representation is a real orthogonal homomorphism; CP tests are correct."""
import numpy as np

import filter_functions as ff
from filter_functions import superoperator as so

from .. import gens
from ..common import arr2bits, bits2arr, corr_script, driver

THEOREMS = ['swap_identity', 'complete_of_swap', 'liou_real', 'liou_one', 'liou_mul',
            'liou_transpose', 'liou_orthogonal', 'liouville_transfer', 'expand_entries',
            'expand_inverse', 'liouville_entries', 'liouville_castReal', 'choi_entries',
            'choi_of_unitary', 'choi_of_unitary_quadForm', 'choi_of_unitary_posSemidef',
            'transpose_choi_entries', 'transpose_not_cp', 'cp_verdict_of_nonneg',
            'cp_verdict_false_of_neg'] + '''
choiMatrix_model choiMatrix_entries_model isCPLiou_iff_model exists_isEigh cp_verdict_of_isCPLiou
cp_verdict_default_atol cp_verdict_false_of_quadForm liouvilleOfKraus_entries liouvilleOfKraus_spec liouvilleOfKraus_castReal
choiMatrix_of_kraus choi_of_kraus choi_of_kraus_isHermitian choi_of_kraus_posSemidef choi_of_kraus_posSemidef_model
cp_verdict_of_kraus mixture_of_unitaries_cp negative_kraus_weight_quadForm negative_kraus_weight_not_cp negative_kraus_weight_verdict
negative_kraus_weight_verdict_span kraus_of_choi_posSemidef cp_iff_kraus choiMatrix_inj cp_zero
cp_liou cp_one cp_add cp_sum cp_smul_nonneg
cp_smul_nonneg' cp_comp cp_pow cp_closed cp_of_tendsto
cp_of_hasSum cp_exp_of_cp cp_exp_of_gen cp_exp_lindblad cp_convex
liouvilleRepr_generic liouville_closed_form_eq_generic liouvilleRepr_ggm_entries liouville_stack_eq_map liou_cumL
total_liouville_is_product total_liouville_eq_last_step cumulative_liouville_is_product'''.split()     # module C15CP: Kraus <-> Choi, CP cone, verdicts, closed-form path, total propagators
LEAN_MODULES = ['FFVerif.Props.C15', 'FFVerif.Props.C15CP', 'FFVerif.Props.C09cCP']
THEOREMS += [   # module C09cCP: Lindblad generators pass, non-Lindblad generators fail the cCP test
    'FFVerif.C09.verdict_of_posSemidef', 'FFVerif.C09.verdict_false_of_eigenvalue', 'FFVerif.C09.choi_of_linear_map',
    'FFVerif.C09.gks_generator_cCP', 'FFVerif.C09.lindblad_eq_gks', 'FFVerif.C09.lindblad_generator_cCP',
    'FFVerif.C09.lindblad_cCP_verdict', 'FFVerif.C09.cumulant_first_order_cCP_verdict', 'FFVerif.C09.cCP_necessary_transition_rates',
    'FFVerif.C09.negative_rate_not_cCP', 'FFVerif.C09.isEigvals_of_isEigh', 'FFVerif.C09.exists_eigenvalue_le_diag',
    'FFVerif.C09.verdict_false_of_diag', 'FFVerif.C09.cCP_test_rejects_negative_rate']
PINS = ['pinGgmExpand', 'C15_superop_source_shape']
GEN_SITES = ['einsum:superoperator_liouville_representation_0',
             'einsum:superoperator_liouville_to_choi_0', 'const:superoperator']
COMPONENTS = ['liouville', 'choi']
CORR_SCRIPT_COMPONENTS = ['liouville_kraus', 'choi(kraus)', 'choi = sum w |A>><<A|', 'verdict', 'bound',
                          'liouville_repr', 'stack = map', 'liouville_stack', 'total L = product of inputs',
                          'concat_total_liouville', 'lindbladLiou']
RULES = ['correspondence: liouville_representation / liouville_to_choi vs the Lean model on random '
         'unitaries and bases (Pauli, GGM, rotated, non-traceless), d in {2,3,4}; search: entries '
         'tr(C_i U C_j U†), realness, orthogonality, L(1)=1, multiplicativity, stacks, d=13 GGM '
         '(closed-form path), pulses\' total_propagator_liouville, CP / cCP verdicts on unitary '
         'channels, convex mixtures, Lindblad generators, transposition and negative-Kraus maps; '
         'distinct = input hash; non-trivial = non-diagonal unitary']
ASSUMPTIONS = ['numpy.linalg.eigh on the Choi matrix returns its spectrum (validated on samples)']
TRUSTED = ['oracle contract: eigh of the Choi matrix; the comparison `basis == Basis.ggm(d)` that selects '
           'the closed-form path is an input flag of the model (the path theorem is about the exact '
           'Gell-Mann basis)']


def bases(rng, d):
    out = [ff.Basis.ggm(d)]
    if d in (2, 4):
        out.append(ff.Basis.pauli(int(np.log2(d))))
    out.append(ff.Basis(gens.rotated_basis(rng, d, True), traceless=True))
    out.append(ff.Basis(gens.rotated_basis(rng, d, False), traceless=False))
    return out


def correspondence(ctx):
    rng = ctx.rng('corr')
    n = 16 if ctx.tier == 'quick' else 200
    lines, refs = [], []
    for i in range(n):
        d = int(rng.choice([2, 2, 3, 4]))
        bs = bases(rng, d)
        C = bs[int(rng.integers(0, len(bs)))]
        U = gens.rand_unitary(rng, d)
        ref = so.liouville_representation(U, C)
        lines.append(f'liouville {d} {len(C)} {"1" if C.isherm else "0"} {arr2bits(U)} '
                     f'{arr2bits(np.array(C).astype(complex))}')
        refs.append(ref.astype(complex))
        S = rng.standard_normal((d*d, d*d))
        refc = so.liouville_to_choi(S, C)
        lines.append(f'choi {d} {len(C)} {arr2bits(S.astype(complex))} '
                     f'{arr2bits(np.array(C).astype(complex))}')
        refs.append(refc.astype(complex))
        ctx.count(('corr', i, d))
    outs = driver(lines)
    bad = {'liouville': [], 'choi': []}
    for ln, o, ref in zip(lines, outs, refs):
        got = bits2arr(o[3:], ref.shape, cplx=True) if o.startswith('ok ') else None
        err = gens.abs_err(got, ref) if got is not None else np.inf
        if not err <= 1e-9:
            bad[ln.split()[0]].append(err)
    for k, v in bad.items():
        ctx.oblige('correspondence:' + k, 'correspondence', not v, f'{len(v)} disagree: {v[:3]}')
    ctx.sample({'line': lines[0][:120]})
    # Kraus maps, both code paths of liouville_representation, stacks, total Liouville propagator of
    # real concatenations, CP verdicts (model SuperopKraus, written with module C15CP)
    corr_script(ctx, 'corr_c15cp', CORR_SCRIPT_COMPONENTS)
    corr_script(ctx, 'corr_c09ccp', ['projq', 'projchoi', 'cpverdict', 'end-to-end verdict'])


def check_liouville(ctx, case):
    U, V = np.asarray(case['U']), np.asarray(case['V'])
    C = ff.Basis(np.asarray(case['C']), traceless=case.get('traceless'), btype=case.get('btype'))
    if case.get('perm') is not None:
        # a basis derived from that Basis object by indexing (numpy machinery keeps the attributes)
        C = C[np.asarray(case['perm'], dtype=int)]
    d = U.shape[-1]
    probs = []
    L = so.liouville_representation(U, C)
    ref = np.einsum('iab,bc,jcd,ad->ij', np.array(C), U, np.array(C), U.conj())
    if not np.max(np.abs(L - ref)) <= 1e-9:
        probs.append(('entries != tr(C_i U C_j U†)', float(np.max(np.abs(L - ref)))))
    if np.iscomplexobj(L) and np.max(np.abs(L.imag)) > 1e-9:
        probs.append(('not real', float(np.max(np.abs(L.imag)))))
    if len(C) == d*d:
        if not np.allclose(L @ L.T, np.eye(d*d), atol=1e-9):
            probs.append(('not orthogonal', float(np.max(np.abs(L @ L.T - np.eye(d*d))))))
        LV = so.liouville_representation(V, C)
        LUV = so.liouville_representation(U @ V, C)
        if not np.allclose(LUV, L @ LV, atol=1e-9):
            probs.append(('not multiplicative', float(np.max(np.abs(LUV - L @ LV)))))
    L1 = so.liouville_representation(np.eye(d), C)
    if not np.allclose(L1, np.eye(len(C)), atol=1e-9):
        probs.append(('L(1) != 1', float(np.max(np.abs(L1 - np.eye(len(C)))))))
    st = so.liouville_representation(np.array([U, V, U @ V]), C)
    if not (np.allclose(st[0], L, atol=1e-10)):
        probs.append(('stack differs from single', 0))
    ctx.count(('liou', d, U.tobytes()[:64], case.get('btype')))
    if probs:
        ctx.fail('liouville_algebra', case, probs, 'real orthogonal homomorphism', {},
                 f'liouville_representation d={d}: {probs[:3]}')


def check_cp(ctx, case):
    """CP / cCP verdicts for maps built from Kraus / Lindblad data"""
    rng = np.random.default_rng(case['seed'])
    d = int(case['d'])
    C = ff.Basis.ggm(d) if case['basis'] == 'ggm' else ff.Basis.pauli(int(np.log2(d)))
    Cn = np.array(C)
    probs = []

    def liou_of_kraus(Ks, ws):
        return sum(w*np.einsum('iab,bc,jcd,ad->ij', Cn, K, Cn, K.conj()) for K, w in zip(Ks, ws)).real
    Us = [gens.rand_unitary(rng, d) for _ in range(3)]
    w = rng.dirichlet(np.ones(3))
    if not so.liouville_is_CP(liou_of_kraus(Us[:1], [1.0]), C):
        probs.append('unitary channel judged not CP')
    if not so.liouville_is_CP(liou_of_kraus(Us, w), C):
        probs.append('convex mixture of unitaries judged not CP')
    if so.liouville_is_CP(liou_of_kraus(Us[:2], [1.5, -0.5]), C):
        probs.append('map with negative Kraus weight judged CP')
    T = np.einsum('iab,jab->ij', Cn, Cn).real   # transposition: tr(C_i C_j^T)
    if d >= 2 and so.liouville_is_CP(T, C):
        probs.append('transposition judged CP')
    # Lindblad generator: L(rho) = sum_k g_k (A rho A† - 1/2 {A†A, rho})
    A = [gens.rand_herm(rng, d) + 1j*gens.rand_herm(rng, d) for _ in range(2)]
    g = rng.uniform(0.1, 1, 2)

    def gen(rho, gs):
        return sum(gk*(a @ rho @ a.conj().T - 0.5*(a.conj().T @ a @ rho + rho @ a.conj().T @ a))
                   for a, gk in zip(A, gs))
    def liou_gen(gs):
        return np.array([[np.trace(Cn[i] @ gen(Cn[j], gs)) for j in range(len(Cn))]
                         for i in range(len(Cn))]).real
    if not so.liouville_is_cCP(liou_gen(g), C):
        probs.append('Lindblad generator judged not cCP')
    if so.liouville_is_cCP(liou_gen([1.0, -0.8]), C):
        probs.append('generator with a negative rate judged cCP')
    # stacks: the verdict for each member of a stack is the verdict for that member alone — also
    # when the members differ by many orders of magnitude (one large map must not hide a small
    # violation of another one), with the default tolerance and with an explicit one
    big = 10.0**rng.uniform(3, 7)
    small = 10.0**rng.uniform(-10, -8)
    cp_stack = np.array([big*liou_of_kraus(Us[:1], [1.0]), liou_of_kraus(Us[:2], [1.0, -small]),
                         liou_of_kraus(Us, w), liou_of_kraus(Us[:2], [1.5, -0.5])])
    ccp_stack = np.array([big*liou_gen(g), liou_gen([1.0, -small]), liou_gen(g), liou_gen([1.0, -0.8])])
    for fn, stack, name in ((so.liouville_is_CP, cp_stack, 'CP'), (so.liouville_is_cCP, ccp_stack, 'cCP')):
        for atol in (None, 1e-12):
            kw = {} if atol is None else {'atol': atol}
            whole = np.asarray(fn(stack, C, **kw))
            alone = np.array([bool(fn(m, C, **kw)) for m in stack])
            if whole.shape != alone.shape or not np.array_equal(whole, alone):
                probs.append(f'{name} verdicts of a stack {whole.tolist()} differ from the members '
                             f'tested alone {alone.tolist()} (atol={atol}, scales {big:.1g} / {small:.1g})')
            if atol is None and not (alone[0] and alone[2] and not alone[3]):
                probs.append(f'{name} verdicts of the stack members wrong: {alone.tolist()}')
    ctx.count(('cp', d, case['seed'], case['basis']))
    if probs:
        ctx.fail('cp_verdicts', case, probs, 'mathematically correct verdict', {},
                 f'd={d}: {probs}')


def check_pulse_liouville(ctx, case):
    desc = case['desc']
    p = gens.build(desc)
    L = p.total_propagator_liouville
    Q = p.total_propagator
    C = np.array(p.basis)
    ref = np.einsum('iab,bc,jcd,ad->ij', C, Q, C, Q.conj())
    ctx.count(('pl', desc['d'], tuple(desc['features'])))
    if not np.max(np.abs(L - ref)) <= 1e-9:
        ctx.fail('pulse_liouville', case, float(np.max(np.abs(L - ref))), 0, {},
                 'total_propagator_liouville differs from L(total_propagator)')
        return
    # pulses produced by composition cache (or recompute) the Liouville total propagator themselves:
    # concatenation with reuse of the atomic control matrices, nested concatenation, periodic
    # repetition, extension, remapping
    rng = np.random.default_rng(int(case.get('seed', 0)))
    om = np.linspace(0.1, 4, 5)
    d2 = gens.rand_desc(rng, d=desc['d'], n_dt=int(rng.integers(1, 3)), basis=desc['basis'],
                        features=['const_sens'])
    d1 = dict(desc)
    d1['n_coeffs'] = np.repeat(np.asarray(desc['n_coeffs'])[:, :1], len(desc['dt']), axis=1)
    d2['n_opers'], d2['n_ids'] = d1['n_opers'], d1['n_ids']
    d2['n_coeffs'] = np.repeat(np.asarray(d1['n_coeffs'])[:, :1], len(d2['dt']), axis=1)

    def both(cache):
        a, b = gens.build(d1), gens.build(d2)
        if cache:
            a.cache_filter_function(om)
            b.cache_filter_function(om)
        return a, b
    comps = []
    try:
        a, b = both(True)
        c = ff.concatenate([a, b])
        comps.append(('concatenate (cached inputs)', c))
        comps.append(('nested concatenate', ff.concatenate([c, gens.build(d1)], omega=om)))
        a, b = both(False)
        comps.append(('concatenate (omega given)', ff.concatenate([a, b], omega=om)))
        comps.append(('concatenate (plain)', ff.concatenate(both(False))))
        a, _ = both(True)
        comps.append(('concatenate_periodic', ff.concatenate_periodic(a, 3)))
    except ValueError:
        pass
    for what, c in comps:
        Lc = c.total_propagator_liouville
        Qc = c.total_propagator
        Cc = np.array(c.basis)
        refc = np.einsum('iab,bc,jcd,ad->ij', Cc, Qc, Cc, Qc.conj())
        ctx.count(('plc', what, desc['d'], int(case.get('seed', 0))))
        if not np.max(np.abs(Lc - refc)) <= 1e-9:
            ctx.fail('pulse_liouville', case, float(np.max(np.abs(Lc - refc))), 0, {},
                     f'{what}: total_propagator_liouville differs from L(total_propagator) by '
                     f'{np.max(np.abs(Lc - refc)):.3g}')
            return


CHECKS = {'liouville_algebra': check_liouville, 'cp_verdicts': check_cp,
          'pulse_liouville': check_pulse_liouville}


def replay(ctx, check, case):
    CHECKS[check](ctx, case)


def search(ctx, deep=False):
    rng = ctx.rng('deep' if deep else 'search')
    n = {('quick', False): 30, ('quick', True): 200, ('thorough', False): 400,
         ('thorough', True): 1200}[(ctx.tier, deep)]
    for i in range(n):
        d = int(rng.choice([2, 3, 4])) if i % 15 else 13
        if d == 13:
            C = ff.Basis.ggm(13)
            cs = {'C': np.array(C), 'traceless': True, 'btype': 'GGM'}
            if (i // 15) % 2 == 1:
                cs['perm'] = np.concatenate(([0], 1 + rng.permutation(168)))
        else:
            bs = bases(rng, d)
            C = bs[int(rng.integers(0, len(bs)))]
            cs = {'C': np.array(C), 'traceless': bool(C.istraceless), 'btype': C.btype}
            if rng.random() < 0.3:
                cs['perm'] = rng.permutation(len(C))
        check_liouville(ctx, dict(cs, U=gens.rand_unitary(rng, d), V=gens.rand_unitary(rng, d)))
        if i % 3 == 0:
            dd = int(rng.choice([2, 3, 4]))
            check_cp(ctx, {'seed': int(rng.integers(0, 2**31)), 'd': dd,
                           'basis': 'pauli' if dd in (2, 4) and rng.random() < 0.5 else 'ggm'})
        if i % 3 == 1:
            check_pulse_liouville(ctx, {'desc': gens.rand_desc(rng, features=gens.rand_features(rng)),
                                        'seed': int(rng.integers(0, 2**31))})
        if i < 2:
            ctx.sample({'d': d, 'btype': cs['btype']})
