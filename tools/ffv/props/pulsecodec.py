"""Text encoding of abstract pulses shared with the Lean model `Model/Pulse.lean` (driver
component `pulse`): operators are small integer ids (realised as fixed distinct matrices),
coefficients and durations small integers."""
import numpy as np

import filter_functions as ff
from filter_functions.pulse_sequence import PulseSequence

_P = ff.Basis.pauli(1)
BASIS = {0: _P, 1: ff.Basis(np.asarray(_P)[[0, 3, 1, 2]])}


def opmat(i):
    return np.array([[i, 1], [1, -i]], dtype=complex)


def opid(m):
    return int(round(m[0, 0].real))


def ints(xs):
    return '_' if len(xs) == 0 else ','.join(str(int(x)) for x in xs)


def ham_s(terms):
    return '_' if not terms else ';'.join(f'{o}:{"-" if i is None else i}:{ints(c)}'
                                          for o, i, c in terms)


def pulse_s(p):
    return f'{ham_s(p[0])}/{ham_s(p[1])}/{ints(p[2])}/{p[3]}'


def mk(p):
    return PulseSequence([[opmat(o), list(c), i] for o, i, c in p[0]],
                         [[opmat(o), list(c), i] for o, i, c in p[1]], list(p[2]), BASIS[p[3]])


def of_ps(ps):
    b = [k for k, v in BASIS.items() if v.tobytes() == ps.basis.tobytes()][0]
    return ([(opid(o), str(i), list(c)) for o, i, c in zip(ps.c_opers, ps.c_oper_identifiers,
                                                           ps.c_coeffs)],
            [(opid(o), str(i), list(c)) for o, i, c in zip(ps.n_opers, ps.n_oper_identifiers,
                                                           ps.n_coeffs)],
            [int(x) if float(x).is_integer() else float(x) for x in ps.dt], b)


def mapping_s(d):
    return '|'.join('_' if not d[k] else ','.join(f'{a}>{b}' for a, b in d[k].items())
                    for k in sorted(d))


def norm_concat(kind, x):
    """results with duplicate identifiers (suffix collision): the row order of ties is unspecified"""
    dup = False
    if x.startswith('ok'):
        parts = x[3:].split('/')
        for k in ((0,) if kind == 'concat' else (0, 1)):
            terms = parts[k].split(';')
            ids = [t.split(':')[1] for t in terms if t != '_']
            if len(set(ids)) != len(ids):
                dup = True
                parts[k] = ';'.join(sorted(terms))
        return 'ok ' + '/'.join(parts), dup
    return x, dup
