"""C12 — physical results are independent of basis, reference frame and energy zero."""
import numpy as np

import filter_functions as ff
from filter_functions import numeric

from .. import gens
from . import c01

THEOREMS = '''cm_energy_offset ff_energy_offset cm_basis_change basisMix_spec ff_basis_independent
ff_basis_independent_real cm_frame_covariance ff_frame_independent'''.split()
# infidelity-level consequences (module Props/C08Inv, namespace FFVerif.C08)
THEOREMS += ['FFVerif.C08.' + t for t in '''infidelity_energy_offset infidelity_frame_independent
infidelity_frame_independent' frame_identity_element infidelity_basis_independent
infidelity_basis_change_traceless infidelity_basis_independent_traceless
infidelity_branches_agree'''.split()]
# cumulant-function / error-transfer-matrix level (module Props/C12Etm, namespace FFVerif.C12)
THEOREMS += '''toComplexMat_toMatrix fn_toComplexMat basis_transition_orthogonal basisTransition_reorder
cm_basis_change_real decay_amplitudes_basis_change decay_amplitudes_basis_change_matrix
cumulant_basis_change_of_mix cumulant_basis_change_of_mix_opt cumulant_basis_change
cumulant_single_qubit_basis_change etm_basis_change etm_sum_basis_change
process_fidelity_basis_independent cumulant_trace_basis_independent
infidelity_eq_neg_trace_model_cumulant etm_basis_change_from_scratch'''.split()
LEAN_MODULES = ['FFVerif.Props.C12', 'FFVerif.Props.C08Inv', 'FFVerif.Props.C12Etm', 'FFVerif.Props.C10Shifts',
                'FFVerif.Props.C12Frame']
# module C12Frame: energy zero and reference frame beyond first order — second-order filter function, frequency shifts,
# trace tensor, cumulant function, error transfer matrix (end to end from pulse data, first and second order)
THEOREMS += [
    'FFVerif.C12.secondOrderFF_energy_offset', 'FFVerif.C12.secondOrderFF_frame_covariance',
    'FFVerif.C12.frequency_shifts_energy_offset', 'FFVerif.C12.frequency_shifts_frame_independent',
    'FFVerif.C12.cm_frame_covariance_array', 'FFVerif.C12.cm_energy_offset_array',
    'FFVerif.C12.secondOrderFF_frame_covariance_array', 'FFVerif.C12.secondOrderFF_energy_offset_array',
    'FFVerif.C12.fourElementTraces_frame_invariant', 'FFVerif.C12.commutator_traces_frame_invariant',
    'FFVerif.C12.cumulant_frame_invariant', 'FFVerif.C12.cumulant_single_qubit_frame',
    'FFVerif.C12.etm_frame_invariant', 'FFVerif.C12.etm_energy_offset']
# module C10Shifts: the frequency shifts (second order) under a change of basis, end to end from the pulse
THEOREMS += [
    'FFVerif.C10.secondOrderFF_loop_basis_change', 'FFVerif.C10.secondOrderFF_basis_change_of_mix',
    'FFVerif.C10.secondOrderFF_basis_change', 'FFVerif.C10.frequency_shifts_basis_change',
    'FFVerif.C10.frequency_shifts_basis_change_matrix', 'FFVerif.C10.frequency_shifts_basis_change_from_scratch',
    'FFVerif.C10.etm_basis_change_second_order_from_scratch']
PINS = ['pinIdentityElementIndex', 'pinGgmExpand']
GEN_SITES = c01.GEN_SITES
COMPONENTS = c01.COMPONENTS
RULES = ['correspondence: as C01; search: pairs of complete orthonormal Hermitian bases (GGM, Pauli, '
         'rotated traceless / non-traceless, completed from a random partial set): fidelity filter '
         'function, infidelities, process fidelity tr(exp K)/d^2 equal and error transfer matrices '
         'related by the orthogonal change-of-basis matrix; energy offsets (constant and per-segment, '
         'up to 1e6) leave control matrix / filter function / infidelity unchanged; conjugation of '
         'controls, noise operators and basis by one random unitary leaves them unchanged; '
         'non-traceless noise operators included; distinct = input hash']
ASSUMPTIONS = c01.ASSUMPTIONS
TRUSTED = c01.TRUSTED + ['expm (scipy) is an oracle for the error transfer matrix']


def correspondence(ctx):
    c01.correspondence(ctx)


def basis_of(rng, d, kind):
    if kind == 'ggm':
        return ('ggm',)
    if kind == 'pauli' and d in (2, 4):
        return ('pauli',)
    if kind == 'partial':
        part = gens.rotated_basis(rng, d, True)[:int(rng.integers(1, d*d))]
        b = ff.Basis.from_partial(part)
        return ('custom', np.array(b), bool(b.istraceless), 'Custom')
    if kind == 'shuffled_tl':
        # a traceless basis whose identity element is not the first one
        arr = gens.rotated_basis(rng, d, True)
        arr = arr[rng.permutation(len(arr))]
        return ('custom', arr, True, 'Custom')
    if kind == 'signed_tl':
        return ('custom', gens.signed_shuffled_basis(rng, d, True), True, 'Custom')
    if kind == 'derived':
        how = str(rng.choice(['permute', 'conj', 'transpose', 'ctor', 'scale_normalize']))
        return ('derived', ('ggm',), how, int(rng.integers(0, 2**31)))
    tl = kind == 'rot_tl'
    return ('custom', gens.rotated_basis(rng, d, tl), tl, 'Custom')


def fail(ctx, check, case, what, e, tol):
    ctx.fail(check, case, {'what': what, 'err': e}, {'tol': tol}, {},
             f'{check}: {what} differs by {e:.3g} (features={case["desc"]["features"]}, '
             f'bases={case.get("kinds")})')


def check_basis(ctx, case):
    desc, omega = case['desc'], np.asarray(case['omega'], dtype=float)
    rng = np.random.default_rng(case['seed'])
    d = desc['d']
    S = 1/(1 + omega**2)
    res = []
    for kind in case['kinds']:
        dd = dict(desc)
        dd['basis'] = basis_of(rng, d, kind)
        p = gens.build(dd)
        F = p.get_filter_function(omega)
        inf = ff.infidelity(p, S, omega)
        U = numeric.error_transfer_matrix(p, S, omega)
        res.append((np.array(p.basis), F, inf, U))
    (C1, F1, i1, U1), (C2, F2, i2, U2) = res
    # cross-correlated noise: a Hermitian cross-spectral matrix with complex off-diagonal entries — the
    # infidelity of every pair of noise sources is basis independent, too
    n_n = len(desc['n_opers'])
    if n_n >= 2:
        S3 = gens.rand_spectrum(np.random.default_rng(case['seed'] + 7), n_n, omega, 3)
        pair = []
        for kind, (Ck, _, _, _) in zip(case['kinds'], res):
            dd = dict(desc)
            dd['basis'] = ('custom', Ck, None, 'Custom')
            pair.append(ff.infidelity(gens.build(dd), S3, omega))
        e = gens.abs_err(pair[1], pair[0], float(np.max(np.abs(pair[0]))) or 1.0)
        if not e <= 1e-8:
            fail(ctx, 'basis_independence', case, 'infidelities of cross-correlated noise sources', e, 1e-8)
    e = gens.rel_err(F2, F1)
    if not e <= 1e-8:
        fail(ctx, 'basis_independence', case, 'fidelity filter function', e, 1e-8)
    e = gens.rel_err(i2, i1)
    if not e <= 1e-8:
        fail(ctx, 'basis_independence', case, 'infidelity', e, 1e-8)
    O = np.einsum('kij,lji->kl', C2, C1).real          # C2_k = sum_l O_kl C1_l
    e = gens.abs_err(U2, O @ U1 @ O.T, 1e-12)
    if not e <= 1e-8:
        fail(ctx, 'basis_independence', case, 'error transfer matrix vs O U O^T', e, 1e-8)
    pf1, pf2 = np.trace(U1, axis1=-2, axis2=-1)/d**2, np.trace(U2, axis1=-2, axis2=-1)/d**2
    e = gens.abs_err(pf2, pf1, 1e-12)
    if not e <= 1e-8:
        fail(ctx, 'basis_independence', case, 'process fidelity', e, 1e-8)
    ctx.count(('basis', tuple(case['kinds']), tuple(desc['features']), case['seed']), nontrivial=True)


def check_offset_frame(ctx, case):
    desc, omega = case['desc'], np.asarray(case['omega'], dtype=float)
    rng = np.random.default_rng(case['seed'])
    d, n_dt = desc['d'], len(desc['dt'])
    S = 1/(1 + omega**2)
    p = gens.build(desc)
    B, F, inf = p.get_control_matrix(omega), p.get_filter_function(omega), ff.infidelity(p, S, omega)
    # energy offset: add c(t) * identity as an additional control operator
    scale = float(case['offset'])
    dd = dict(desc)
    dd['c_opers'] = np.concatenate((desc['c_opers'], [np.eye(d)]))
    off = np.full(n_dt, scale) if case['const'] else rng.standard_normal(n_dt)*scale
    dd['c_coeffs'] = np.concatenate((desc['c_coeffs'], [off]))
    dd['c_ids'] = list(desc['c_ids']) + ['Zoffset']
    q = gens.build(dd)
    tol = 1e-8*max(1.0, abs(scale)*max(np.sum(desc['dt']), 1)*1e-3)
    for what, a, b in (('control matrix', q.get_control_matrix(omega), B),
                       ('filter function', q.get_filter_function(omega), F),
                       ('infidelity', ff.infidelity(q, S, omega), inf)):
        e = gens.rel_err(a, b)
        if not e <= tol:
            ctx.fail('energy_offset', case, {'what': what, 'err': e}, {'tol': tol},
                     {'offset': scale}, f'energy offset {scale:g}: {what} changed by {e:.3g}')
    # frame: conjugate everything by one unitary
    W = gens.rand_unitary(rng, d)
    cj = lambda A: W @ np.asarray(A) @ W.conj().T   # noqa
    df = dict(desc)
    df['c_opers'] = cj(desc['c_opers'])
    df['n_opers'] = cj(desc['n_opers'])
    df['basis'] = ('custom', cj(gens.basis_array(desc)), None, 'Custom')
    r = gens.build(df)
    for what, a, b in (('control matrix', r.get_control_matrix(omega), B),
                       ('filter function', r.get_filter_function(omega), F)):
        e = gens.rel_err(a, b)
        if not e <= 1e-8:
            ctx.fail('frame_covariance', case, {'what': what, 'err': e}, {'tol': 1e-8}, {},
                     f'frame change: {what} changed by {e:.3g}')
    ctx.count(('of', scale, case['const'], tuple(desc['features']), case['seed']), nontrivial=True)


def check_ggm_large(ctx, case):
    """d = 13 (closed-form GGM expansion in the Liouville representation): filter function and
    infidelity of a concatenation in the GGM basis vs the same computed in a rotated basis and from
    scratch"""
    rng = np.random.default_rng(case['seed'])
    d = 13
    om = np.array([0.3, 1.1, 2.7])
    d1 = gens.rand_desc(rng, d=d, n_dt=2, n_c=1, n_n=1, basis=('ggm',), features=['const_sens'])
    d2 = gens.rand_desc(rng, d=d, n_dt=2, n_c=1, n_n=1, basis=('ggm',), features=['const_sens'])
    d2['c_opers'], d2['c_ids'] = d1['c_opers'], d1['c_ids']
    d2['n_opers'], d2['n_ids'], d2['n_coeffs'] = d1['n_opers'], d1['n_ids'], np.repeat(
        np.asarray(d1['n_coeffs'])[:, :1], 2, axis=1)
    rot = ('custom', gens.rotated_basis(rng, d, True), True, 'Custom')
    res = {}
    for name, b in (('ggm', ('ggm',)), ('rotated', rot)):
        a, c = dict(d1, basis=b), dict(d2, basis=b)
        cat = ff.concatenate([gens.build(a), gens.build(c)], omega=om)
        res[name] = (cat.get_filter_function(om), ff.infidelity(cat, 1/(1 + om), om))
    seq = dict(d1)
    seq['c_coeffs'] = np.concatenate((d1['c_coeffs'], d2['c_coeffs']), axis=1)
    seq['n_coeffs'] = np.concatenate((d1['n_coeffs'], d2['n_coeffs']), axis=1)
    seq['dt'] = np.concatenate((d1['dt'], d2['dt']))
    Fs = gens.build(seq).get_filter_function(om)
    ctx.count(('ggm13', case['seed']))
    e1 = gens.rel_err(res['ggm'][0], res['rotated'][0])
    e2 = gens.rel_err(res['ggm'][0], Fs)
    e3 = gens.rel_err(res['ggm'][1], res['rotated'][1])
    if not max(e1, e2, e3) <= 1e-8:
        ctx.fail('basis_independence', dict(case, desc=d1, kinds=['ggm13', 'rotated']),
                 {'what': 'd = 13 concatenation', 'err': max(e1, e2, e3)}, {'tol': 1e-8}, {},
                 f'basis_independence: d = 13, GGM vs rotated basis vs from scratch: filter function '
                 f'{e1:.3g} / {e2:.3g}, infidelity {e3:.3g}')


CHECKS = {'basis_independence': check_basis, 'energy_offset': check_offset_frame,
          'frame_covariance': check_offset_frame}


def replay(ctx, check, case):
    if case.get('kinds') and case['kinds'][0] == 'ggm13':
        return check_ggm_large(ctx, case)
    CHECKS[check](ctx, case)


def search(ctx, deep=False):
    rng = ctx.rng('deep' if deep else 'search')
    n = {('quick', False): 16, ('quick', True): 120, ('thorough', False): 300,
         ('thorough', True): 900}[(ctx.tier, deep)]
    kinds_all = ['ggm', 'pauli', 'rot_tl', 'rot_ntl', 'partial', 'shuffled_tl', 'derived', 'signed_tl']
    if ctx.tier == 'thorough' or deep:
        check_ggm_large(ctx, {'seed': int(rng.integers(0, 2**31))})
    for i in range(n):
        feats = gens.rand_features(rng, 0.25, ['idle', 'zero_dt', 'degenerate', 'nontraceless_nop',
                                               'neg_sens', 'structured'])
        d = int(rng.choice([2, 2, 3, 4]))
        desc = gens.rand_desc(rng, d=d, n_dt=int(rng.integers(1, 4)), features=feats, basis=('ggm',))
        omega = np.sort(np.concatenate((-10.0**rng.uniform(-2, 1, 8), 10.0**rng.uniform(-2, 1, 8))))
        seed = int(rng.integers(0, 2**31))
        ks = [k for k in kinds_all if k != 'pauli' or d in (2, 4)]
        kinds = list(rng.choice(ks, 2, replace=False))
        check_basis(ctx, {'desc': desc, 'omega': omega, 'seed': seed, 'kinds': kinds})
        check_offset_frame(ctx, {'desc': desc, 'omega': omega, 'seed': seed,
                                 'offset': float(10.0**rng.integers(-2, 7)),
                                 'const': bool(rng.integers(0, 2))})
        if i < 2:
            ctx.sample({'d': d, 'features': feats, 'bases': kinds})
