"""C16 — tensor-product helpers compute exactly the documented Kronecker chains."""
import itertools

import numpy as np

from filter_functions import basis as ffb
from filter_functions import util

from ..common import corr_script, driver

THEOREMS = '''normPos_ok_iff normPos_rejected positions_rejected_iff_insert insertResult_valueError
positions_rejected_iff_merge mixedRadix_decode_encode mixedRadix_encode_decode insertResult_spec
insertResult_perm insertResultInt_spec tensorChain_spec mergeSlots_spec
mergeResult_spec mergeResult_eq_insertResult mergeResult_valueError_iff_length transposeResult_spec
transposeAxes_slots transposeResult_ok_iff transposeResult_rejected transposeResultInt_negative
transposeResult_id transposeResult_comp
equivalentPauli_spec equivalentPauli_set remapPauli_spec remapPauli_perm insertSubscripts_slots
insertSubscripts_slotFactors insertSubscripts_consistent splitInsertIndex_formula
splitInsertIndex_bookkeeping'''.split()
PINS = ['pinTensorInsert', 'pinTensorMerge', 'pinTensorTranspose']
LEAN_MODULES = ['FFVerif.Props.C16', 'FFVerif.Props.C16Kron', 'FFVerif.Props.C16KronIns', 'FFVerif.Props.C16KronLoop']
THEOREMS = THEOREMS + ['FFVerif.C16Kron.' + t for t in '''mergeSigma_eq_mergeResult tensorMergeNum_isChain'
tensorMergeNum_eq_chain insertSpec_single tensorInsertNum_single_isChain' tensorInsertNum_eq_chain_partial
singleInsertNum_bookkeeping tensorInsertNum_isChain' tensorInsertNum_eq_chain tensorInsertNum_eq_tensorMergeNum
tensorInsertNumInt_isChain' isChain_flatten' '''.split()]
# module C16Kron (model TensorNum: util.tensor / tensor_transpose / tensor_insert / tensor_merge on shape + buffer arrays):
# the chain is the iterated Kronecker product, transposing the formed product = the product of the permuted factors
THEOREMS = THEOREMS + [
    'FFVerif.C16Kron.kronMat_apply', 'FFVerif.C16Kron.isChain_iff_kronMat',
    'FFVerif.C16Kron.tensorChain_eq_kron', 'FFVerif.C16Kron.tensorChain_entry',
    'FFVerif.C16Kron.tensorTransposeNum_eq_chain', 'FFVerif.C16Kron.tensorTransposeNum_eq_kron']
GEN_SITES = ['einsum:util_tensor_call0', 'einsum:util_tensor_insert_call0',
             'einsum:util_tensor_merge_call0']
COMPONENTS = ['tensor_insert', 'tensor_merge', 'tensor_transpose', 'pauli_index_maps']
RULES = ['chains of <= 4 factors with pairwise distinct dimensions from {2,3,4,5}, rank 1..3, one '
         'optional broadcast axis; all position tuples in [-n-1, n+1] (admissible and inadmissible) '
         'for 1..2 inserted / merged factors, all permutations and non-permutations as orders; '
         'Pauli index maps for n <= 5 (quick: <= 4), all subsets / permutations; the real result is '
         'compared (a) with the product of the factor order predicted by the Lean model and (b) '
         'with the product of numpy.insert applied to the factor list (independent oracle); '
         'exception classes compared; thorough tier enumerates exhaustively; distinct = request; '
         'non-trivial = heterogeneous dims and at least one negative or repeated position']
ASSUMPTIONS = ['arrays are random reals; equality at 1e-12 (products of distinct random factors '
               'distinguish factor orders)']
TRUSTED = ['modelled not verified: numpy.einsum / reshape semantics (the model interprets the '
           'subscripts the Python constructs)']

DIMS = [2, 3, 5, 4]


def factors(rng, dims, rank, bshape=()):
    return [rng.standard_normal(bshape + (d,)*rank) for d in dims]


def ilist(xs):
    return ','.join(str(int(x)) for x in xs) if len(xs) else '_'


def run_case(rng, kind, c, pos, n, rank, bshape=(), mixed=False):
    """returns (request line, impl outcome) ; outcome = ('ok', array) | ('err', class)"""
    dims_c = DIMS[:c]
    dims_i = ([7, 6] + [2]*n)[:n] if n <= 6 else [2]*n
    ch = factors(rng, dims_c, rank, bshape)
    ins = factors(rng, dims_i, rank, bshape)
    if mixed:
        # broadcast axes that differ between the chain and the inserted factors (every combination
        # of none / length one / length three broadcasts to (3,)); `mixed` is True (draw them) or
        # the list [chain axes, axes of factor 0, ...] of a stored case
        opts = [(), (1,), (3,)]
        if mixed is True:
            mixed = [opts[int(rng.integers(0, 3))] for _ in range(1 + len(dims_i))]
        mixed = [tuple(int(x) for x in b) for b in mixed]
        ch = factors(rng, dims_c, rank, mixed[0])
        ins = [rng.standard_normal(b + (dd,)*rank) for b, dd in zip(mixed[1:], dims_i)]
    run_case.last_mixed = [list(b) for b in mixed] if mixed else None
    arr = util.tensor(*ch, rank=rank)
    # positions are handed over as a list or (every other multi-position request) as an integer
    # ndarray, which must come back unchanged
    run_case.calls = getattr(run_case, 'calls', 0) + 1
    pos_in = np.array(pos, dtype=int) if (len(pos) > 1 and run_case.calls % 2) else list(pos)
    pos = pos_in
    pos_before = np.array(pos_in, dtype=int).copy()
    try:
        if kind == 'tinsert':
            out = util.tensor_insert(arr, *ins, pos=pos, arr_dims=[dims_c]*rank, rank=rank)
        elif kind == 'tinsert_int':
            out = util.tensor_insert(arr, *ins, pos=int(pos[0]), arr_dims=[dims_c]*rank, rank=rank)
        elif kind == 'tmerge':
            out = util.tensor_merge(arr, util.tensor(*ins, rank=rank), pos=pos,
                                    arr_dims=[dims_c]*rank, ins_dims=[dims_i]*rank, rank=rank)
        else:
            out = util.tensor_transpose(arr, list(pos), arr_dims=[dims_c]*rank, rank=rank)
        res = ('ok', out)
    except (IndexError, ValueError, ZeroDivisionError, TypeError) as e:
        res = ('err', type(e).__name__)
    if not np.array_equal(np.array(pos_in, dtype=int), pos_before):
        res = ('err', f'the position array of the caller was modified: {pos_before.tolist()} -> '
                      f'{np.array(pos_in).tolist()}')
    return ch, ins, res


def predicted(kind, c, pos, n, rank):
    if kind == 'ttranspose':
        return f'ttranspose {c} {ilist(pos)} {rank}'
    if kind == 'tinsert_int':
        return f'tinsert_int {c} {int(pos[0])} {n}'
    if kind == 'tmerge':
        return f'tmerge {c} {ilist(pos)} {n} {rank}'
    return f'tinsert {c} {ilist(pos)} {n}'


def oracle_order(kind, c, pos, n):
    """independent expectation from numpy.insert / permutation semantics; None = must be rejected"""
    if kind == 'ttranspose':
        if sorted(pos) != list(range(c)):
            return None
        return [int(o) for o in pos]
    if kind == 'tinsert_int':
        p = int(pos[0])
        if not -c <= p <= c:
            return None
        return list(np.insert(np.arange(c), [p]*n, np.arange(c, c + n)))
    if len(pos) != n or any(not -c <= p <= c for p in pos):
        return None
    norm = [p if p >= 0 else p + c for p in pos]
    return [int(v) for v in np.insert(np.arange(c), norm, np.arange(c, c + n))]


def requests(tier, rng):
    reqs = []
    cs = (1, 2, 3) if tier == 'quick' else (1, 2, 3, 4)
    for c in cs:
        rng_pos = range(-c - 1, c + 2)
        for n in (1, 2):
            tuples = list(itertools.product(rng_pos, repeat=n))
            if tier == 'quick' and len(tuples) > 20:
                tuples = [tuples[i] for i in rng.choice(len(tuples), 20, replace=False)]
            for pos in tuples:
                for kind in ('tinsert', 'tmerge'):
                    for rank in ((2,) if tier == 'quick' else (1, 2, 3)):
                        if c*rank + n*rank > 24 or (rank == 3 and c > 2):
                            continue
                        reqs.append((kind, c, pos, n, rank))
            for p in rng_pos:
                reqs.append(('tinsert_int', c, (p,), n, 2))
        if c >= 2:
            orders = list(itertools.product(range(-1, c + 1), repeat=c))
            if len(orders) > 40 and tier == 'quick':
                orders = [orders[i] for i in rng.choice(len(orders), 40, replace=False)]
            for o in orders:
                reqs.append(('ttranspose', c, o, 0, 2))
    # many inserted factors at repeated positions (ties must keep the given order, whatever the
    # sorting routine does for longer inputs: 3..6 and 17..20 factors)
    for j in range(24 if tier == 'quick' else 300):
        c = int(rng.integers(1, 4))
        big = j % 6 == 5
        n = int(rng.integers(17, 21)) if big else int(rng.integers(3, 7))
        rank = 1 if big or rng.random() < 0.5 else 2
        if big:
            c = 1
        if rank == 2:
            n, c = min(n, 4), min(c, 2)
        vals = rng.integers(-c, c + 1, int(rng.integers(1, 3)))
        pos = tuple(int(x) for x in rng.choice(vals, n))
        reqs.append((str(rng.choice(['tinsert', 'tmerge'])), c, pos, n, rank))
    # wrong-length position lists
    reqs.append(('tmerge', 2, (0, 1, 2), 2, 2))
    reqs.append(('tmerge', 2, (0,), 2, 2))
    reqs.append(('tinsert', 2, (0, 1, 1), 2, 2))
    return reqs


def correspondence(ctx, salt='corr'):
    if salt == 'corr':
        # the NUMERICAL results of tensor / tensor_transpose / tensor_insert / tensor_merge vs the model TensorNum
        # (heterogeneous non-square chains, every admissible and inadmissible position tuple; bit-identical)
        corr_script(ctx, 'corr_c16kron', [])
    rng = ctx.rng(salt)
    reqs = requests(ctx.tier, rng)
    lines = [predicted(*r) for r in reqs]
    outs = driver(lines)
    bad = {'tensor_insert': [], 'tensor_merge': [], 'tensor_transpose': []}
    comp = {'tinsert': 'tensor_insert', 'tinsert_int': 'tensor_insert', 'tmerge': 'tensor_merge',
            'ttranspose': 'tensor_transpose'}
    for r, ln, o in zip(reqs, lines, outs):
        kind, c, pos, n, rank = r
        bshape = (2,) if (c + n) % 2 else ()
        mixed = kind in ('tinsert', 'tinsert_int') and n <= 4 and rng.random() < 0.35
        ch, ins, res = run_case(rng, kind, c, pos, n, rank, bshape, mixed)
        allf = ch + ins
        nontriv = any(p < 0 for p in pos) or len(set(pos)) < len(pos)
        ctx.count(ln, nontrivial=nontriv)
        exp = oracle_order(kind, c, pos, n)
        # (a) model vs implementation
        if o.startswith('ok '):
            order = [int(t) for t in o[3:].split(',')] if o[3:] != '_' else []
            if res[0] != 'ok':
                bad[comp[kind]].append((ln, 'model ok', res))
            else:
                pred = util.tensor(*[allf[i] for i in order], rank=rank)
                if pred.shape != res[1].shape or not np.allclose(pred, res[1], atol=1e-12):
                    bad[comp[kind]].append((ln, 'model order', order, 'differs from result'))
        elif o.startswith('err '):
            cls = o.split()[1]
            if res[0] != 'err' or (res[1] != cls and not (cls == 'SlotMismatch')):
                bad[comp[kind]].append((ln, o, res[0], res[1] if res[0] == 'err' else ''))
        else:
            bad[comp[kind]].append((ln, o))
        # (b) implementation vs independent oracle = the property itself
        if exp is None:
            if res[0] != 'err':
                ctx.fail('inadmissible_rejected', {'kind': kind, 'c': c, 'pos': list(pos), 'n': n,
                                                   'rank': rank, 'mixed': run_case.last_mixed},
                         'a result was returned', 'rejection', {'kind': kind},
                         f'{kind} chain={c} pos={list(pos)} n={n} rank={rank}: inadmissible '
                         f'argument accepted')
        else:
            if res[0] != 'ok':
                ctx.fail('admissible_accepted', {'kind': kind, 'c': c, 'pos': list(pos), 'n': n,
                                                 'rank': rank, 'mixed': run_case.last_mixed},
                         res[1], 'a result', {'kind': kind},
                         f'{kind} chain={c} pos={list(pos)} n={n} rank={rank}: admissible argument '
                         f'rejected with {res[1]}')
            else:
                want = util.tensor(*[allf[i] for i in exp], rank=rank)
                if want.shape != res[1].shape or not np.allclose(want, res[1], atol=1e-12):
                    ctx.fail('chain_order', {'kind': kind, 'c': c, 'pos': list(pos), 'n': n,
                                             'rank': rank, 'mixed': run_case.last_mixed},
                             'different product',
                             {'order': exp}, {'kind': kind},
                             f'{kind} chain={c} pos={list(pos)} n={n} rank={rank}: result is not '
                             f'the product of the rearranged factor list {exp}')
    for k, v in bad.items():
        ctx.oblige('correspondence:' + k, 'correspondence', not v, f'{len(v)} disagree: {v[:2]}')
    ctx.sample({'request': lines[3], 'model': outs[3]})
    ctx.exhaustive = ctx.tier == 'thorough'

    # Pauli index maps
    lines, refs = [], []
    nmax = 4 if ctx.tier == 'quick' else 5
    for N in range(1, nmax + 1):
        subsets = [s for k in range(1, N + 1) for s in itertools.combinations(range(N), k)]
        for s in subsets:
            lines.append(f'pauli_equiv {N} {ilist(s)}')
            refs.append(list(ffb.equivalent_pauli_basis_elements(list(s), N)))
        perms = list(itertools.permutations(range(N)))
        if len(perms) > 24 and ctx.tier == 'quick':
            perms = [perms[i] for i in rng.choice(len(perms), 24, replace=False)]
        for p in perms:
            lines.append(f'pauli_remap {N} {ilist(p)}')
            refs.append(list(ffb.remap_pauli_basis_elements(list(p), N)))
    # larger registers (the theorems are for every n; integer width is not: 4**n exceeds one byte
    # at n = 5 and two bytes at n = 9)
    for N, k in ((5, 6), (6, 2), (9, 1)) if ctx.tier == 'quick' else ((6, 12), (7, 4), (9, 3)):
        for _ in range(k):
            s = sorted(rng.choice(N, int(rng.integers(1, N + 1)), replace=False).tolist())
            lines.append(f'pauli_equiv {N} {ilist(s)}')
            refs.append(list(ffb.equivalent_pauli_basis_elements(list(s), N)))
            p = rng.permutation(N).tolist()
            lines.append(f'pauli_remap {N} {ilist(p)}')
            refs.append(list(ffb.remap_pauli_basis_elements(list(p), N)))
    outs = driver(lines)
    badp = [(ln, o[:40]) for ln, o, r in zip(lines, outs, refs)
            if not (o.startswith('ok ') and [int(t) for t in o[3:].split(',')] == [int(x) for x in r])]
    ctx.oblige('correspondence:pauli_index_maps', 'correspondence', not badp,
               f'{len(badp)} of {len(lines)} disagree: {badp[:2]}')
    for ln in lines:
        ctx.count(ln, nontrivial=True)


def check_pauli_maps(ctx, case):
    """index maps vs explicitly constructed tensor-product Pauli bases"""
    N = int(case['N'])
    import filter_functions as ff
    full = np.array(ff.Basis.pauli(N))
    one = np.array(ff.Basis.pauli(1))*np.sqrt(2)
    idx = list(case['idx'])
    k = len(idx)
    sub = np.array(ff.Basis.pauli(k))
    elem = ffb.equivalent_pauli_basis_elements(idx, N)
    # element j of the k-qubit basis, with identities on the other qubits, equals full[elem[j]]
    eye = np.eye(2)
    probs = []
    for j in range(4**k):
        digits = np.unravel_index(j, (4,)*k)
        facs = [eye]*N
        for q, dgt in zip(sorted(idx), digits):
            facs[q] = one[dgt]
        ref = util.tensor(*facs)/np.sqrt(2**N)
        if not np.allclose(full[elem[j]], ref):
            probs.append(('equivalent_pauli_basis_elements', idx, j))
            break
    perm = list(case['perm'])
    rm = ffb.remap_pauli_basis_elements(perm, N)
    for j in range(4**N):
        t = util.tensor_transpose(full[j], perm, [[2]*N]*2)
        if not np.allclose(t, full[rm[j]]):
            probs.append(('remap_pauli_basis_elements', perm, j))
            break
    # the index maps are pure: whatever the caller does to a returned array, the next call with the same
    # arguments returns the same map
    for fn, arg in ((ffb.equivalent_pauli_basis_elements, idx), (ffb.remap_pauli_basis_elements, perm)):
        first = np.array(fn(arg, N), copy=True)
        out = fn(arg, N)
        try:
            out[...] = out[::-1].copy()
            out[0] = -1
        except (ValueError, TypeError):
            pass                     # (a read-only result is fine)
        again = np.asarray(fn(arg, N))
        if again.shape != first.shape or not np.array_equal(again, first):
            probs.append((fn.__name__ + ' returns another map after the caller modified an earlier result',
                          list(arg), 0))
    ctx.count(('pm', N, tuple(idx), tuple(perm)))
    if probs:
        ctx.fail('pauli_index_maps', case, probs, 'explicit tensor-product basis', {},
                 f'N={N}: {probs}')


def replay(ctx, check, case):
    if check == 'pauli_index_maps':
        return check_pauli_maps(ctx, case)
    rng = np.random.default_rng(0)
    kind, c, pos, n, rank = case['kind'], case['c'], case['pos'], case['n'], case['rank']
    run_case.calls = 0      # (multi-position requests are replayed with an ndarray of positions)
    ch, ins, res = run_case(rng, kind, c, pos, n, rank, mixed=case.get('mixed') or False)
    exp = oracle_order(kind, c, pos, n)
    if exp is None:
        if res[0] != 'err':
            ctx.fail(check, case, 'accepted', 'rejection', {}, 'inadmissible argument accepted')
    elif res[0] != 'ok':
        ctx.fail(check, case, res[1], 'a result', {}, 'admissible argument rejected')
    else:
        want = util.tensor(*[(ch + ins)[i] for i in exp], rank=rank)
        if want.shape != res[1].shape or not np.allclose(want, res[1], atol=1e-12):
            ctx.fail(check, case, 'different product', exp, {}, 'wrong factor order')


def search(ctx, deep=False):
    rng = ctx.rng('deep' if deep else 'search')
    nmax = 3 if (ctx.tier == 'quick' and not deep) else 4
    for N in range(1, nmax + 1):
        for _ in range(3 if ctx.tier == 'quick' else 12):
            k = int(rng.integers(1, N + 1))
            idx = sorted(rng.choice(N, k, replace=False).tolist())
            check_pauli_maps(ctx, {'N': N, 'idx': idx, 'perm': rng.permutation(N).tolist()})
    # five qubits against the explicitly constructed 1024-element basis
    for _ in range(2 if ctx.tier == 'quick' and not deep else 8):
        idx = sorted(rng.choice(5, int(rng.integers(1, 6)), replace=False).tolist())
        check_pauli_maps(ctx, {'N': 5, 'idx': idx, 'perm': rng.permutation(5).tolist()})
    if deep:
        # another (thorough tier: exhaustive) enumeration of the helpers through the correspondence
        # path, with fresh random position lists
        for k in range(3):
            correspondence(ctx, salt=f'deep{k}')
            if ctx.failures:
                break
