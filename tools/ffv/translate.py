"""Translator: /repo working tree (Python ast) -> /verif/lean/FFVerif/Gen/*.lean

What is translated mechanically, on every run:
  * every literal einsum / opt_einsum subscript string of the modelled modules -> one Lean
    contraction definition each (Gen/Einsum.lean), together with the normalised source text of the
    operand expressions at the call site (`…_args`), so that operand wiring (`.conj()`, argument
    order, slices) is pinned by `decide`-checked obligations in Props;
  * numerical guards / thresholds / tolerances / path-switch constants (Gen/Constants.lean);
  * the attribute sets of PulseSequence.cleanup, the attribute initialisers of __init__, the
    alias table of is_cached, the keys of the intermediates dicts (Gen/CacheSets.lean);
  * the option tuples of every @parse_optional_parameters decorator (Gen/Options.lean).
What is not translated: control flow and object state (hand-modelled, tied by correspondence).

A site whose pattern no longer matches is reported as failed (the definitions are then absent
from Gen and every theorem that depends on them stops compiling)."""
import ast
import os
import re

from .common import LEAN, REPO

MODULES = ['numeric', 'pulse_sequence', 'basis', 'superoperator', 'gradient', 'util', 'analytic']
EINSUM_FUNCS = {'einsum', 'contract', 'contract_expression'}


def src(node):
    return re.sub(r'\s+', ' ', ast.unparse(node)).strip()


class FuncIndex(ast.NodeVisitor):
    """qualified name -> FunctionDef"""

    def __init__(self):
        self.stack = []
        self.funcs = {}

    def visit_ClassDef(self, node):
        self.stack.append(node.name)
        self.generic_visit(node)
        self.stack.pop()

    def visit_FunctionDef(self, node):
        self.stack.append(node.name)
        key = '.'.join(self.stack)
        if key in self.funcs:
            # e.g. a property getter and its setter share the qualified name: the first
            # definition keeps the plain name, later ones get a suffix
            k = 2
            while f'{key}__{k}' in self.funcs:
                k += 1
            key = f'{key}__{k}'
        self.funcs[key] = node
        self.generic_visit(node)
        self.stack.pop()


def load(mod):
    with open(os.path.join(REPO, 'filter_functions', mod + '.py')) as f:
        tree = ast.parse(f.read())
    idx = FuncIndex()
    idx.visit(tree)
    return tree, idx.funcs


def top_level_funcs(funcs):
    """Only outermost functions/methods (nested defs are reached through their parent)."""
    names = sorted(funcs)
    return [n for n in names if not any(n.startswith(m + '.') and m in funcs and
                                        not isinstance(funcs[m], ast.ClassDef) for m in names
                                        if m != n)]


# ------------------------------------------------------------------------------------------------
# einsum
# ------------------------------------------------------------------------------------------------
def collect_einsums(mod, funcs):
    """[(site_name, subscripts, [arg sources])] in source order per outermost function."""
    out = []
    for qn in top_level_funcs(funcs):
        fn = funcs[qn]
        k = 0
        kc = 0
        seen = set()
        # deterministic source order
        nodes = sorted((n for n in ast.walk(fn) if hasattr(n, 'lineno')),
                       key=lambda n: (n.lineno, n.col_offset))
        for node in nodes:
            sub = None
            args = []
            if isinstance(node, ast.Call):
                f = node.func
                name = f.attr if isinstance(f, ast.Attribute) else getattr(f, 'id', None)
                if name in EINSUM_FUNCS and node.args and isinstance(node.args[0], ast.Constant) \
                        and isinstance(node.args[0].value, str):
                    sub = node.args[0].value
                    if name == 'contract_expression':
                        args = []
                    else:
                        args = [src(a) for a in node.args[1:]]
            elif isinstance(node, ast.Assign) and isinstance(node.value, ast.Constant) \
                    and isinstance(node.value.value, str) and len(node.targets) == 1 \
                    and isinstance(node.targets[0], ast.Name) \
                    and node.targets[0].id in ('einsum_str', 'subscripts') \
                    and re.fullmatch(r'[A-Za-z.,]+(->[A-Za-z.]*)?', node.value.value):
                sub = node.value.value
            if sub is None and isinstance(node, ast.Call):
                f = node.func
                name = f.attr if isinstance(f, ast.Attribute) else getattr(f, 'id', None)
                if name in ('einsum', 'contract') and node.args and \
                        isinstance(node.args[0], ast.Name):
                    out.append((f"{mod}_{qn.replace('.', '_')}_call{kc}", None,
                                [src(a) for a in node.args[1:]]))
                    kc += 1
            if sub is None or id(node) in seen:
                continue
            seen.add(id(node))
            out.append((f"{mod}_{qn.replace('.', '_')}_{k}", sub, args))
            k += 1
    return out


def parse_subscripts(sub, ell):
    """-> (list of input index lists, output index list). Ellipsis replaced by the letters `ell`
    (a string of capital letters, possibly empty)."""
    if '->' in sub:
        ins, outp = sub.split('->')
        ins = ins.split(',')
    else:
        ins = sub.split(',')
        letters = ''.join(ins).replace('.', '')
        outp = ('...' if '...' in sub else '') + ''.join(sorted(c for c in set(letters)
                                                                if letters.count(c) == 1))
    ins = [list(i.replace('...', ell)) for i in ins]
    outp = list(outp.replace('...', ell))
    return ins, outp


def vec_type(dims):
    t = 'K'
    for d in reversed(dims):
        t = f'(Vector {t} n_{d})'
    return t


def lean_einsum(name, sub, ell=''):
    ins, outp = parse_subscripts(sub, ell)
    letters = []
    for i in ins:
        for c in i:
            if c not in letters:
                letters.append(c)
    summed = [c for c in letters if c not in outp]
    dims = ' '.join(f'n_{c}' for c in letters)
    params = ' '.join(f'(x{j} : {vec_type(i) if i else "K"})' for j, i in enumerate(ins))
    body = ' * '.join(f'x{j}' + ''.join(f'[i_{c}]' for c in i) for j, i in enumerate(ins))
    for c in reversed(summed):
        body = f'fsum n_{c} fun i_{c} => {body}'
    for c in reversed(outp):
        body = f'Vector.ofFn fun i_{c} => {body}'
    rt = vec_type(outp) if outp else 'K'
    return (f'/-- `{sub}`' + (f' with `...` := `{ell}`' if '...' in sub else '') + ' -/\n'
            f'def {name} {{K : Type}} [Zero K] [Add K] [Mul K] {{{dims} : Nat}}\n'
            f'    {params} :\n    {rt} :=\n  {body}\n')


def gen_einsum(report):
    parts = ['/- GENERATED by tools/ffv/translate.py from /repo — do not edit. -/\n'
             'import FFVerif.Core.Scalars\n\nnamespace FFVerif.Gen\n']
    for mod in MODULES:
        try:
            _, funcs = load(mod)
            sites = collect_einsums(mod, funcs)
        except Exception as e:  # noqa
            report[f'einsum:{mod}'] = {'ok': False, 'detail': repr(e)}
            continue
        for name, sub, args in sites:
            try:
                txt = ''
                if sub is None:
                    parts.append(f'def {name}_args : List String := '
                                 f'[{", ".join(lean_str(a) for a in args)}]\n')
                    report[f'einsum:{name}'] = {'ok': True, 'detail': 'call args'}
                    continue
                if '...' in sub:
                    txt += lean_einsum(name + '_e0', sub, '')
                    txt += lean_einsum(name + '_e1', sub, 'Z')
                else:
                    txt += lean_einsum(name, sub)
                txt += f'def {name}_subscripts : String := {lean_str(sub)}\n'
                txt += f'def {name}_args : List String := [{", ".join(lean_str(a) for a in args)}]\n'
                parts.append(txt)
                report[f'einsum:{name}'] = {'ok': True, 'detail': sub}
            except Exception as e:  # noqa
                report[f'einsum:{name}'] = {'ok': False, 'detail': repr(e)}
    parts.append('end FFVerif.Gen\n')
    return '\n'.join(parts)


def lean_str(s):
    return '"' + s.replace('\\', '\\\\').replace('"', '\\"') + '"'


# ------------------------------------------------------------------------------------------------
# constants / guards
# ------------------------------------------------------------------------------------------------
def lit(node):
    """Python numeric literal node -> Lean literal text"""
    if isinstance(node, ast.UnaryOp) and isinstance(node.op, ast.USub):
        return '-' + lit(node.operand)
    if isinstance(node, ast.Constant) and isinstance(node.value, (int, float)) \
            and not isinstance(node.value, bool):
        v = node.value
        if isinstance(v, int):
            return str(v)
        m, e = f'{v:e}'.split('e')
        m = m.rstrip('0').rstrip('.')
        return f'{m}e{int(e)}'
    raise ValueError('not a literal: ' + ast.dump(node))


OPS = {ast.Gt: 'gt', ast.Lt: 'lt', ast.GtE: 'ge', ast.LtE: 'le', ast.Eq: 'eq', ast.NotEq: 'ne'}


def find_all(fn, pred):
    nodes = sorted((n for n in ast.walk(fn) if hasattr(n, 'lineno')),
                   key=lambda n: (n.lineno, n.col_offset))
    return [n for n in nodes if pred(n)]


def is_call(n, name):
    if not isinstance(n, ast.Call):
        return False
    f = n.func
    return (f.attr if isinstance(f, ast.Attribute) else getattr(f, 'id', None)) == name


def compares(fn):
    return find_all(fn, lambda n: isinstance(n, ast.Compare) and len(n.ops) == 1)


def gen_constants(report):
    L = ['/- GENERATED by tools/ffv/translate.py from /repo — do not edit. -/\n'
         'import FFVerif.Core.Mask\n\nnamespace FFVerif.Gen\n']

    def emit_real(name, text, doc):
        L.append(f'/-- {doc} -/\ndef {name} {{R : Type}} [OfScientific R] [OfNat R 0] [Neg R] : R := '
                 f'{text if "e" in text or "." in text else text + ".0"}\n')

    def emit_str(name, s, doc):
        L.append(f'/-- {doc} -/\ndef {name} : String := {lean_str(s)}\n')

    def emit_nat(name, n, doc):
        L.append(f'/-- {doc} -/\ndef {name} : Nat := {n}\n')

    def site(name, f):
        try:
            f()
            report['const:' + name] = {'ok': True, 'detail': ''}
        except Exception as e:  # noqa
            report['const:' + name] = {'ok': False, 'detail': repr(e)}

    _, num = load('numeric')
    _, grad = load('gradient')
    _, bas = load('basis')
    _, sup = load('superoperator')
    _, pls = load('pulse_sequence')
    _, utl = load('util')

    # -- numeric._first_order_integral: mask = (np.abs(int_buf.imag) > 1e-7); int_buf[~mask] = dt
    def first_order():
        fn = num['_first_order_integral']
        cs = [c for c in compares(fn)]
        assert len(cs) == 1, 'expected exactly one comparison'
        c = cs[0]
        emit_str('firstOrderMaskLhs', src(c.left), 'left-hand side of the small-denominator mask')
        emit_str('firstOrderMaskOp', OPS[type(c.ops[0])], 'comparator of the mask')
        emit_real('firstOrderMaskThr', lit(c.comparators[0]), 'threshold of the mask')
        # guard shape -> MaskKind (pattern table; anything else is a translation failure)
        lhs, op = c.left, type(c.ops[0])
        assert op is ast.Gt and is_call(lhs, 'abs') and len(lhs.args) == 1, 'unrecognised guard'
        inner = lhs.args[0]
        if isinstance(inner, ast.BinOp) and isinstance(inner.op, ast.Mult) and \
                {src(inner.left), src(inner.right)} == {'int_buf.imag', 'dt'}:
            kind = 'absTimesDtGt'
        elif src(inner) == 'int_buf.imag':
            kind = 'absGt'
        else:
            raise ValueError('unrecognised guard ' + src(c))
        L.append(f'/-- shape of the guard `{src(c)}` -/\ndef firstOrderMaskKind : FFVerif.MaskKind := '
                 f'.{kind}\n')
        # masked branch value: int_buf[~mask] = <expr>
        asg = [n for n in find_all(fn, lambda n: isinstance(n, ast.Assign))
               if isinstance(n.targets[0], ast.Subscript) and 'mask' in src(n.targets[0])]
        assert len(asg) == 1
        emit_str('firstOrderMaskedValue', src(asg[0].value), 'value written where the mask is false')
        emit_str('firstOrderMaskedTarget', src(asg[0].targets[0]), 'target of that write')
        # the statements of the function body (normalised), pins the closed form's wiring
        emit_str('firstOrderBody', ' ; '.join(src(s) for s in fn.body[1:]),
                 'normalised statements of _first_order_integral')
    site('numeric._first_order_integral', first_order)

    def second_order():
        fn = num['_second_order_integral']
        calls = find_all(fn, lambda n: is_call(n, 'not_equal'))
        emit_str('secondOrderMasks', ' ; '.join(src(c) for c in calls),
                 'the three exact-zero masks of _second_order_integral')
        emit_str('secondOrderBody', ' ; '.join(src(s) for s in fn.body[1:]),
                 'normalised statements of _second_order_integral')
    site('numeric._second_order_integral', second_order)

    def periodic():
        fn = num['calculate_control_matrix_periodic']
        calls = find_all(fn, lambda n: is_call(n, 'isclose'))
        assert len(calls) == 1
        emit_str('periodicInvertibleTest', src(calls[0]), 'invertibility test of the periodic CM')
        emit_str('periodicBody', ' ; '.join(src(s) for s in fn.body[1:]),
                 'normalised statements of calculate_control_matrix_periodic')
    site('numeric.calculate_control_matrix_periodic', periodic)

    def cumulant_switch():
        fn = num['calculate_cumulant_function']
        ifs = [n for n in find_all(fn, lambda n: isinstance(n, ast.If)) if 'btype' in src(n.test)]
        assert len(ifs) >= 1
        emit_str('cumulantShortcutTest', src(ifs[0].test), 'single-qubit shortcut selector')
        emit_str('cumulantShortcutBody', ' ; '.join(src(s) for s in ifs[0].body),
                 'statements of the single-qubit shortcut')
        emit_str('cumulantGeneralBody', ' ; '.join(src(s) for s in ifs[0].orelse),
                 'statements of the general trace-tensor branch')
    site('numeric.calculate_cumulant_function', cumulant_switch)

    def infid():
        fn = num['infidelity']
        ifs = [n for n in find_all(fn, lambda n: isinstance(n, ast.If))
               if 'istraceless' in src(n.test)]
        emit_str('infidelityBranchTests', ' ; '.join(src(i.test) for i in ifs),
                 'branch selectors of infidelity mentioning istraceless')
        rets = find_all(fn, lambda n: isinstance(n, ast.Return))
        emit_str('infidelityTail', ' ; '.join(src(s) for s in fn.body[-6:]),
                 'last statements of infidelity')
        assert rets
    site('numeric.infidelity', infid)

    def decay():
        fn = num['calculate_decay_amplitudes']
        body = [s for s in fn.body if not (isinstance(s, ast.Expr)
                                           and isinstance(s.value, ast.Constant))]
        emit_str('decayAmplitudesTail', ' ; '.join(src(s) for s in body[-8:]),
                 'last statements of calculate_decay_amplitudes')
    site('numeric.calculate_decay_amplitudes', decay)

    def grad_masks():
        fn = grad['_derivative_integral']
        cs = compares(fn)
        emit_str('gradDerivIntegralMasks', ' ; '.join(src(c) for c in cs),
                 'comparisons in gradient._derivative_integral')
        emit_str('gradDerivIntegralBody', ' ; '.join(src(s) for s in fn.body[1:]),
                 'normalised statements of _derivative_integral')
        fn2 = grad['_liouville_derivative']
        emit_str('gradLiouvilleDerivBody', ' ; '.join(src(s) for s in fn2.body[1:]),
                 'normalised statements of _liouville_derivative')
    site('gradient.masks', grad_masks)

    def basis_consts():
        cls_funcs = {k: v for k, v in bas.items() if k.startswith('Basis.')}
        for meth, nm in (('Basis.isherm', 'basisIsherm'), ('Basis.isorthonorm', 'basisIsorthonorm'),
                         ('Basis.istraceless', 'basisIstraceless'),
                         ('Basis.iscomplete', 'basisIscomplete'),
                         ('Basis.four_element_traces', 'basisFourElementTraces')):
            fn = cls_funcs[meth]
            body = [s for s in fn.body if not (isinstance(s, ast.Expr)
                                               and isinstance(s.value, ast.Constant))]
            emit_str(nm + 'Body', ' ; '.join(src(s) for s in body), f'statements of {meth}')
        fn = cls_funcs['Basis.__array_finalize__'] if 'Basis.__array_finalize__' in cls_funcs \
            else None
        new = cls_funcs.get('Basis.__new__')
        if new is not None:
            emit_str('basisNewBody', ' ; '.join(src(s) for s in new.body
                                               if not (isinstance(s, ast.Expr)
                                                       and isinstance(s.value, ast.Constant))),
                     'statements of Basis.__new__')
    site('basis.flags', basis_consts)

    def superop():
        fn = sup['liouville_representation']
        ifs = find_all(fn, lambda n: isinstance(n, ast.If))
        emit_str('liouvilleBranchTest', src(ifs[0].test) if ifs else '', 'path switch')
        emit_str('liouvilleBody', ' ; '.join(src(s) for s in fn.body
                                             if not (isinstance(s, ast.Expr)
                                                     and isinstance(s.value, ast.Constant))),
                 'statements of liouville_representation')
        for nm in ('liouville_to_choi', 'liouville_is_CP', 'liouville_is_cCP'):
            f2 = sup[nm]
            emit_str(nm.replace('_', '') + 'Body',
                     ' ; '.join(src(s) for s in f2.body
                                if not (isinstance(s, ast.Expr)
                                        and isinstance(s.value, ast.Constant))),
                     f'statements of {nm}')
    site('superoperator', superop)

    def eq_tols():
        fn = pls['PulseSequence.__eq__']
        asg = {src(a.targets[0]): src(a.value) for a in find_all(fn, lambda n: isinstance(n, ast.Assign))
               if isinstance(a.targets[0], ast.Name)}
        emit_str('pulseEqAtol', asg['atol'], 'atol of PulseSequence.__eq__')
        emit_str('pulseEqRtol', asg['rtol'], 'rtol of PulseSequence.__eq__')
        body = [s for s in fn.body if not (isinstance(s, ast.Expr) and isinstance(s.value, ast.Constant))]
        emit_str('pulseEqBody', ' ; '.join(src(s) for s in body), 'statements of __eq__')
    site('pulse_sequence.__eq__', eq_tols)

    L.append('end FFVerif.Gen\n')
    return '\n'.join(L)


# (module, qualified name, Lean constant): bodies pinned verbatim (docstrings dropped, text normalised
# by ast.unparse, so comments / blank lines / line breaks do not matter)
BODY_PINS = [
    ('util', 'integrate', 'pinIntegrate'),
    ('numeric', '_identity_element_index', 'pinIdentityElementIndex'),
    ('basis', 'Basis.__array_finalize__', 'pinBasisArrayFinalize'),
    ('basis', 'Basis.four_element_traces', 'pinFourElementTraces'),
    ('basis', '_full_from_partial', 'pinFullFromPartial'),
    ('basis', 'ggm_expand', 'pinGgmExpand'),
    ('basis', 'expand', 'pinExpand'),
    ('util', 'tensor_insert', 'pinTensorInsert'),
    ('util', 'tensor_merge', 'pinTensorMerge'),
    ('util', 'tensor_transpose', 'pinTensorTranspose'),
    ('pulse_sequence', '_join_equal_segments', 'pinJoinEqualSegments'),
    ('pulse_sequence', 'remap', 'pinRemap'),
    ('pulse_sequence', 'extend', 'pinExtend'),
    ('pulse_sequence', '_merge_attrs', 'pinMergeAttrs'),
    ('pulse_sequence', '_insert_attrs', 'pinInsertAttrs'),
    ('pulse_sequence', '_default_extend_mapping', 'pinDefaultExtendMapping'),
    ('pulse_sequence', '_map_identifiers', 'pinMapIdentifiers'),
    ('pulse_sequence', 'concatenate', 'pinConcatenate'),
    ('pulse_sequence', 'concatenate_without_filter_function', 'pinConcatenateWithoutFF'),
    ('pulse_sequence', '_concatenate_Hamiltonian', 'pinConcatenateHamiltonian'),
    ('pulse_sequence', 'concatenate_periodic', 'pinConcatenatePeriodic'),
    ('pulse_sequence', '_parse_args', 'pinParseArgs'),
    ('pulse_sequence', '_parse_Hamiltonian', 'pinParseHamiltonian'),
    ('util', 'parse_operators', 'pinParseOperators'),
    ('util', 'parse_spectrum', 'pinParseSpectrum'),
    ('util', 'get_indices_from_identifiers', 'pinGetIndices'),
    ('util', 'hash_array_along_axis', 'pinHashArray'),
    ('util', 'all_array_equal', 'pinAllArrayEqual'),
    ('numeric', 'diagonalize', 'pinDiagonalize'),
    ('numeric', 'calculate_control_matrix_from_scratch', 'pinControlMatrixFromScratch'),
    ('numeric', 'calculate_control_matrix_from_atomic', 'pinControlMatrixFromAtomic'),
    ('pulse_sequence', 'PulseSequence.get_filter_function_derivative', 'pinGetFFDerivative'),
    ('gradient', 'calculate_derivative_of_control_matrix_from_scratch', 'pinGradControlMatrix'),
    ('gradient', 'infidelity_derivative', 'pinInfidelityDerivative'),
    ('numeric', 'error_transfer_matrix', 'pinErrorTransferMatrix'),
    ('numeric', 'calculate_frequency_shifts', 'pinFrequencyShifts'),
    ('numeric', '_get_integrand', 'pinGetIntegrand'),
    ('pulse_sequence', 'PulseSequence.propagator_at_arb_t', 'pinPropagatorAtArbT'),
    ('analytic', 'FID', 'pinFID'), ('analytic', 'SE', 'pinSE'), ('analytic', 'PDD', 'pinPDD'),
    ('analytic', 'CPMG', 'pinCPMG'), ('analytic', 'CDD', 'pinCDD'), ('analytic', 'UDD', 'pinUDD'),
]


def gen_pins(report):
    """statement-text pins of helper functions whose bodies are modelled by hand (own file: a change
    of a pinned function must not force a rebuild of everything that imports Gen.Constants)"""
    L = ['/- GENERATED by tools/ffv/translate.py from /repo — do not edit. -/\n'
         'namespace FFVerif.Gen\n']

    def body_text(fn):
        return ' ; '.join(src(s) for s in fn.body
                          if not (isinstance(s, ast.Expr) and isinstance(s.value, ast.Constant)
                                  and isinstance(s.value.value, str)))
    mods = {}
    for (mod, qn, lean) in BODY_PINS:
        try:
            if mod not in mods:
                mods[mod] = load(mod)[1]
            L.append(f'/-- normalised statements of {mod}.{qn} -/\ndef {lean} : String := '
                     f'{lean_str(body_text(mods[mod][qn]))}\n')
            report['const:pin.' + lean] = {'ok': True, 'detail': ''}
        except Exception as e:  # noqa
            L.append(f'def {lean} : String := ""\n')
            report['const:pin.' + lean] = {'ok': False, 'detail': repr(e)}
    L.append('end FFVerif.Gen\n')
    return '\n'.join(L)


# ------------------------------------------------------------------------------------------------
# cache sets
# ------------------------------------------------------------------------------------------------
def lean_strlist(xs):
    return '[' + ', '.join(lean_str(x) for x in xs) + ']'


def gen_cachesets(report):
    L = ['/- GENERATED by tools/ffv/translate.py from /repo — do not edit. -/\n'
         'namespace FFVerif.Gen\n']
    _, pls = load('pulse_sequence')
    _, num = load('numeric')

    def site(name, f):
        try:
            f()
            report['cache:' + name] = {'ok': True, 'detail': ''}
        except Exception as e:  # noqa
            report['cache:' + name] = {'ok': False, 'detail': repr(e)}

    def cleanup():
        fn = pls['PulseSequence.cleanup']
        sets = {}
        for a in find_all(fn, lambda n: isinstance(n, ast.Assign)):
            if isinstance(a.targets[0], ast.Name) and isinstance(a.value, ast.Set):
                sets[a.targets[0].id] = sorted(e.value for e in a.value.elts)
        for k in ('default_attrs', 'concatenation_attrs', 'filter_function_attrs'):
            L.append(f'def cleanup_{k} : List String := {lean_strlist(sets[k])}\n')
        # branches: method == '...' : attrs = <expr>
        top_if = [n for n in fn.body if isinstance(n, ast.If)][0]
        branches = []
        node = top_if
        while True:
            test = src(node.test)
            asg = [s for s in node.body if isinstance(s, ast.Assign)
                   and src(s.targets[0]) == 'attrs'][0]
            pops = [src(s.value.args[0]).strip("'") for s in node.body
                    if isinstance(s, ast.Expr) and is_call(s.value, 'pop')]
            branches.append((test, src(asg.value), pops))
            if len(node.orelse) == 1 and isinstance(node.orelse[0], ast.If):
                node = node.orelse[0]
            else:
                asg = [s for s in node.orelse if isinstance(s, ast.Assign)
                       and src(s.targets[0]) == 'attrs'][0]
                pops = [src(s.value.args[0]).strip("'") for s in node.orelse
                        if isinstance(s, ast.Expr) and is_call(s.value, 'pop')]
                branches.append(('else', src(asg.value), pops))
                break
        # evaluate the set expressions symbolically
        def ev(expr):
            node = ast.parse(expr, mode='eval').body
            return sorted(evs(node))

        def evs(n):
            if isinstance(n, ast.Name):
                return set(sets[n.id])
            if isinstance(n, ast.Set):
                return {e.value for e in n.elts}
            if isinstance(n, ast.Call) and isinstance(n.func, ast.Attribute) \
                    and n.func.attr == 'union':
                r = evs(n.func.value)
                for a in n.args:
                    r |= evs(a)
                return r
            raise ValueError('unsupported set expr ' + ast.dump(n))
        names = {"method == 'conservative'": 'conservative', "method == 'greedy'": 'greedy',
                 "method == 'frequency dependent'": 'freq', 'else': 'all'}
        for test, expr, pops in branches:
            nm = names[test]
            L.append(f'def cleanup_{nm}_attrs : List String := {lean_strlist(ev(expr))}\n')
            L.append(f'def cleanup_{nm}_pops : List String := {lean_strlist(pops)}\n')
        loop = [n for n in fn.body if isinstance(n, ast.For)][0]
        L.append(f'def cleanup_loop : String := {lean_str(src(loop))}\n')
    site('cleanup', cleanup)

    def init():
        fn = pls['PulseSequence.__init__']
        inits = []
        for a in find_all(fn, lambda n: isinstance(n, ast.Assign)):
            t = a.targets[0]
            if isinstance(t, ast.Attribute) and src(t.value) == 'self' and t.attr.startswith('_'):
                inits.append((t.attr, src(a.value)))
        L.append('def init_attrs : List (String × String) := ['
                 + ', '.join(f'({lean_str(a)}, {lean_str(b)})' for a, b in inits) + ']\n')
    site('init', init)

    def aliases():
        fn = pls['PulseSequence.is_cached']
        d = [a for a in find_all(fn, lambda n: isinstance(n, ast.Assign))
             if isinstance(a.value, ast.Dict)][0].value
        pairs = [(k.value, v.value) for k, v in zip(d.keys, d.values)]
        L.append('def is_cached_aliases : List (String × String) := ['
                 + ', '.join(f'({lean_str(a)}, {lean_str(b)})' for a, b in pairs) + ']\n')
    site('aliases', aliases)

    def intermediates():
        for fname, nm in (('calculate_control_matrix_from_scratch', 'cm'),
                          ('calculate_noise_operators_from_scratch', 'nops')):
            fn = num[fname]
            calls = [a for a in find_all(fn, lambda n: isinstance(n, ast.Assign))
                     if src(a.targets[0]) == 'intermediates' and is_call(a.value, 'dict')]
            kw = [(k.arg, src(k.value)) for k in calls[0].value.keywords]
            L.append(f'def intermediates_{nm} : List (String × String) := ['
                     + ', '.join(f'({lean_str(a)}, {lean_str(b)})' for a, b in kw) + ']\n')
    site('intermediates', intermediates)

    def method_bodies():
        """normalised statement lists of the cache-relevant methods (pins statement order)"""
        for meth in ('get_control_matrix', 'cache_control_matrix', 'get_filter_function',
                     'cache_filter_function', 'get_pulse_correlation_filter_function',
                     'get_filter_function_derivative', 'get_total_phases', 'cache_total_phases',
                     'diagonalize', '__copy__', '__deepcopy__',
                     'get_pulse_correlation_control_matrix'):
            fn = pls['PulseSequence.' + meth]
            body = [s for s in fn.body if not (isinstance(s, ast.Expr)
                                               and isinstance(s.value, ast.Constant))]
            L.append(f'def body_{meth.strip("_")} : String := '
                     f'{lean_str(" ; ".join(src(s) for s in body))}\n')
    site('method_bodies', method_bodies)

    L.append('end FFVerif.Gen\n')
    return '\n'.join(L)


# ------------------------------------------------------------------------------------------------
# options
# ------------------------------------------------------------------------------------------------
def gen_options(report):
    L = ['/- GENERATED by tools/ffv/translate.py from /repo — do not edit. -/\n'
         'namespace FFVerif.Gen\n']
    allopts = []
    try:
        for mod in MODULES:
            _, funcs = load(mod)
            for qn, fn in sorted(funcs.items()):
                for dec in fn.decorator_list:
                    if is_call(dec, 'parse_optional_parameters'):
                        for kw in dec.keywords:
                            vals = [src(e) for e in kw.value.elts]
                            allopts.append((f'{mod}.{qn}', kw.arg, vals))
        L.append('def options : List (String × String × List String) := [\n  '
                 + ',\n  '.join(f'({lean_str(a)}, {lean_str(b)}, {lean_strlist(c)})'
                                for a, b, c in allopts) + ']\n')
        report['options'] = {'ok': True, 'detail': f'{len(allopts)} option tuples'}
    except Exception as e:  # noqa
        report['options'] = {'ok': False, 'detail': repr(e)}
    L.append('end FFVerif.Gen\n')
    return '\n'.join(L)


def write_if_changed(path, text):
    old = None
    if os.path.exists(path):
        with open(path) as f:
            old = f.read()
    if old != text:
        with open(path, 'w') as f:
            f.write(text)
        return True
    return False


def run():
    """Regenerate Gen/*.lean. Returns report: site -> {'ok', 'detail'} and list of changed files."""
    report = {}
    gen = os.path.join(LEAN, 'FFVerif', 'Gen')
    os.makedirs(gen, exist_ok=True)
    changed = []
    for fn, f in (('Einsum.lean', gen_einsum), ('Constants.lean', gen_constants),
                  ('CacheSets.lean', gen_cachesets), ('Options.lean', gen_options),
                  ('Pins.lean', gen_pins)):
        try:
            text = f(report)
        except Exception as e:  # noqa
            report['gen:' + fn] = {'ok': False, 'detail': repr(e)}
            continue
        if write_if_changed(os.path.join(gen, fn), text):
            changed.append(fn)
    return report, changed


if __name__ == '__main__':
    import json
    import sys
    rep, ch = run()
    bad = {k: v for k, v in rep.items() if not v['ok']}
    print(json.dumps({'sites': len(rep), 'failed': bad, 'changed': ch}, indent=1))
    sys.exit(1 if bad else 0)
