"""Shared machinery of the /verif checks: paths, seeding, JSON encoding of arrays, Lean build /
audit / driver access, known-finding matching, verdict and evidence writing.

Run with /venv/bin/python and /repo first on sys.path (done by tools/check.py)."""
import fcntl
import hashlib
import json
import os
import re
import struct
import subprocess
import sys
import time

import numpy as np

VERIF = os.path.dirname(os.path.dirname(os.path.dirname(os.path.abspath(__file__))))
REPO = os.environ.get('FFV_REPO', '/repo')
LEAN = os.path.join(VERIF, 'lean')
# (a run against a scratch worktree — FFV_REPO set, used for seeded changes — must not overwrite the
# evidence of /repo itself)
EVID = os.path.join(VERIF, 'evidence') if REPO == '/repo' else '/var/tmp/ffv-evidence-scratch'
os.makedirs(EVID, exist_ok=True)
REPLAYS = os.path.join(VERIF, 'replays')
CORPUS = os.path.join(VERIF, 'corpus')
ALLOWED_AXIOMS = {'propext', 'Classical.choice', 'Quot.sound'}
FORBIDDEN = re.compile(r'\bsorry\b|\badmit\b|^\s*axiom\s|native_decide|bv_decide|implemented_by|'
                       r'\bunsafe\s|maxHeartbeats\s+0\b', re.M)


# ------------------------------------------------------------------------------------------------
# JSON encoding of numpy arrays (exact: doubles as hex strings would be unreadable, so we store
# repr-exact decimal floats; Python's float repr round-trips)
# ------------------------------------------------------------------------------------------------
def enc(a):
    """Encode (nested) python/numpy data for JSON."""
    if isinstance(a, np.ndarray):
        if np.iscomplexobj(a):
            return {'__nd__': 'c', 'shape': list(a.shape),
                    'data': np.ascontiguousarray(a).astype(complex).view(float).ravel().tolist()}
        if a.dtype.kind in 'iub':
            return {'__nd__': 'i', 'shape': list(a.shape), 'data': a.ravel().astype(int).tolist()}
        if a.dtype.kind in 'US':
            return {'__nd__': 's', 'shape': list(a.shape), 'data': [str(x) for x in a.ravel()]}
        return {'__nd__': 'f', 'shape': list(a.shape), 'data': a.astype(float).ravel().tolist()}
    if isinstance(a, (np.floating,)):
        return float(a)
    if isinstance(a, (np.integer,)):
        return int(a)
    if isinstance(a, (np.bool_,)):
        return bool(a)
    if isinstance(a, complex):
        return {'__c__': [a.real, a.imag]}
    if isinstance(a, dict):
        return {str(k): enc(v) for k, v in a.items()}
    if isinstance(a, (list, tuple)):
        return [enc(x) for x in a]
    return a


def dec(x):
    if isinstance(x, dict):
        if '__nd__' in x:
            k = x['__nd__']
            shape = tuple(x['shape'])
            if k == 'c':
                return np.array(x['data'], dtype=float).view(complex).reshape(shape)
            if k == 'i':
                return np.array(x['data'], dtype=int).reshape(shape)
            if k == 's':
                return np.array(x['data'], dtype=str).reshape(shape)
            return np.array(x['data'], dtype=float).reshape(shape)
        if '__c__' in x:
            return complex(*x['__c__'])
        return {k: dec(v) for k, v in x.items()}
    if isinstance(x, list):
        return [dec(v) for v in x]
    return x


def f2b(x):
    """double -> decimal UInt64 bit pattern (protocol of the Lean driver)"""
    return str(struct.unpack('>Q', struct.pack('>d', float(x)))[0])


def b2f(s):
    return struct.unpack('>d', struct.pack('>Q', int(s)))[0]


def arr2bits(a):
    a = np.asarray(a)
    if np.iscomplexobj(a):
        flat = np.ascontiguousarray(a).astype(complex).view(float).ravel()
    else:
        flat = a.astype(float).ravel()
    return ','.join(f2b(v) for v in flat)


def bits2arr(s, shape=None, cplx=False):
    vals = np.array([b2f(t) for t in s.split(',') if t], dtype=float)
    if cplx:
        vals = vals.view(complex)
    if shape is not None:
        vals = vals.reshape(shape)
    return vals


# ------------------------------------------------------------------------------------------------
# Lean side
# ------------------------------------------------------------------------------------------------
class Lock:
    def __enter__(self):
        self.f = open(os.path.join(LEAN, '.check.lock'), 'w')
        fcntl.flock(self.f, fcntl.LOCK_EX)
        return self

    def __exit__(self, *a):
        fcntl.flock(self.f, fcntl.LOCK_UN)
        self.f.close()


def run(cmd, cwd=None, inp=None, timeout=3600, env=None):
    e = dict(os.environ)
    if env:
        e.update(env)
    p = subprocess.run(cmd, cwd=cwd, input=inp, capture_output=True, text=True, timeout=timeout,
                       env=e)
    return p.returncode, p.stdout, p.stderr


def lake_build(targets):
    """Build the given module targets. Returns (ok, log)."""
    rc, out, err = run(['lake', 'build'] + list(targets), cwd=LEAN, timeout=7200)
    return rc == 0, out + err


def failed_decls(log):
    """Extract (file, line, message head) of Lean errors from a lake log."""
    res = []
    for m in re.finditer(r'^error: ([^\s:]+\.lean):(\d+):(\d+): (.*)$', log, re.M):
        res.append({'file': m.group(1), 'line': int(m.group(2)), 'msg': m.group(4)[:200]})
    return res


def decl_at(file, line):
    """Name of the theorem/def enclosing a line of a Lean file (best effort, for reports)."""
    try:
        with open(os.path.join(LEAN, file) if not os.path.isabs(file) else file) as f:
            lines = f.readlines()
    except OSError:
        return None
    for i in range(min(line, len(lines)) - 1, -1, -1):
        m = re.match(r'\s*(?:@\[[^\]]*\]\s*)?(?:private\s+|protected\s+|noncomputable\s+)*'
                     r'(theorem|lemma|def|example|instance|abbrev)\s+([^\s:({\[]+)?', lines[i])
        if m:
            return m.group(2) or m.group(1)
    return None


def lean_audit(prop):
    """Run Audit/<prop>.lean and return {theorem: [axioms]} plus raw log."""
    path = os.path.join('FFVerif', 'Audit', prop + '.lean')
    rc, out, err = run(['lake', 'env', 'lean', path], cwd=LEAN, timeout=3600)
    text = out + err
    res = {}
    # (declaration names may end in primes: 'FFVerif.C01.cm_entry_norm_le'' depends on axioms: [...])
    for m in re.finditer(r"'([^'\s]+?'*)' depends on axioms: \[([^\]]*)\]", text, re.S):
        res[m.group(1)] = [a.strip() for a in m.group(2).replace('\n', ' ').split(',') if a.strip()]
    for m in re.finditer(r"'([^'\s]+?'*)' does not depend on any axioms", text):
        res[m.group(1)] = []
    return rc == 0, res, text


def strip_comments(src):
    # remove block comments (nested not handled beyond one level) and line comments
    src = re.sub(r'/-.*?-/', '', src, flags=re.S)
    src = re.sub(r'--.*$', '', src, flags=re.M)
    return src


def forbidden_scan():
    hits = []
    for root, _, files in os.walk(os.path.join(LEAN, 'FFVerif')):
        for fn in files:
            if fn.endswith('.lean'):
                p = os.path.join(root, fn)
                with open(p) as f:
                    src = strip_comments(f.read())
                for m in FORBIDDEN.finditer(src):
                    hits.append((os.path.relpath(p, LEAN), m.group(0).strip()))
    p = os.path.join(LEAN, 'Driver.lean')
    if os.path.exists(p):
        with open(p) as f:
            src = strip_comments(f.read())
        for m in re.finditer(r'\bsorry\b|^\s*axiom\s|implemented_by', src, re.M):
            hits.append(('Driver.lean', m.group(0).strip()))
    return hits


def driver(lines, timeout=3600):
    """Pipe protocol lines through the Lean model driver; returns list of output lines."""
    inp = '\n'.join(lines) + '\n'
    rc, out, err = run(['lake', 'env', 'lean', '--run', 'Driver.lean'], cwd=LEAN, inp=inp,
                       timeout=timeout)
    if rc != 0:
        raise RuntimeError('lean driver failed: ' + (err or out)[-2000:])
    res = [ln for ln in out.split('\n') if ln.startswith('ok') or ln.startswith('err')]
    if len(res) != len(lines):
        raise RuntimeError(f'lean driver answered {len(res)} lines for {len(lines)} requests: '
                           + out[:500] + err[:500])
    return res


def corr_script(ctx, name, components, timeout=3000):
    """Run a stand-alone correspondence script `tools/ffv/corr/<name>.py` (real package vs the Lean
    driver on the same seeded inputs; written together with the model it exercises) and turn its
    report into obligations. The script prints one line `<component>  max rel deviation <x>` per
    component (and `MISMATCH <component> <what>` for discrete outputs) and exits 0 iff all agree.
    Environment handed to it: FFV_REPO, FFV_LEAN, VERIF_SEED, FFV_TIER."""
    import re as _re
    path = os.path.join(VERIF, 'tools', 'ffv', 'corr', name + '.py')
    env = dict(os.environ, FFV_REPO=REPO, FFV_LEAN=LEAN, VERIF_SEED=str(ctx.seed), FFV_TIER=ctx.tier)
    rc, out, err = run(['/venv/bin/python', path], cwd=os.path.dirname(path), timeout=timeout, env=env)
    dev, mism = {}, {}
    for ln in out.split('\n'):
        m = _re.match(r'^(.+?)\s+max rel deviation\s+(\S+)', ln)
        if m:
            try:
                dev[m.group(1).strip()] = float(m.group(2))
            except ValueError:
                dev[m.group(1).strip()] = float('inf')
        elif ln.startswith('MISMATCH '):
            parts = ln.split(' ', 2)
            mism.setdefault(parts[1] if len(parts) > 1 else '?', []).append(ln[:200])
    seen = set()
    for c in components:
        hits = {k: v for k, v in dev.items() if k == c or k.startswith(c)}
        bad = [k for k, v in hits.items() if not v <= 1e-9] + \
              [k for k in mism if k == c or k.startswith(c)]
        seen |= set(hits) | {k for k in mism if k == c or k.startswith(c)}
        if not hits and not bad:
            ctx.oblige(f'correspondence:{name}:{c}', 'correspondence', False,
                       'component not reported by the script: ' + (err or out)[-300:])
        else:
            ctx.oblige(f'correspondence:{name}:{c}', 'correspondence', not bad,
                       '; '.join(f'{k}: {hits.get(k, mism.get(k))}' for k in (bad or list(hits)[:3]))[:300])
    extra_bad = [k for k, v in dev.items() if k not in seen and not v <= 1e-9] + \
                [k for k in mism if k not in seen]
    ctx.oblige(f'correspondence:{name}:script', 'correspondence', rc == 0 and not extra_bad,
               (f'exit {rc}; ' + '; '.join(extra_bad) + ' ' + (err or '')[-300:]) if (rc or extra_bad)
               else f'exit 0, {len(dev)} components')
    ctx.stats.setdefault('corr_scripts', {})[name] = {k: (v if v == v and v != float('inf') else str(v))
                                                      for k, v in dev.items()}


# ------------------------------------------------------------------------------------------------
# known findings
# ------------------------------------------------------------------------------------------------
def load_known():
    p = os.path.join(VERIF, 'known_findings.json')
    if not os.path.exists(p):
        return []
    with open(p) as f:
        return json.load(f).get('findings', [])


def match_known(prop, failure, known):
    """A failure is a dict with 'check' (sub-check name) and 'features' (dict). An *open* finding
    matches when property and check agree and every feature it lists has the listed value."""
    for k in known:
        if k.get('status') != 'open' or prop not in k.get('properties', [k.get('property')]):
            continue
        if k.get('check') != failure.get('check'):
            continue
        feats = failure.get('features', {})
        if all(feats.get(a) == b for a, b in k.get('features', {}).items()):
            return k
    return None


# ------------------------------------------------------------------------------------------------
# context collecting what a run did
# ------------------------------------------------------------------------------------------------
class Ctx:
    def __init__(self, prop, tier, seed):
        self.prop = prop
        self.tier = tier
        self.seed = seed
        self.t0 = time.time()
        self.obligations = []      # dicts name kind ok detail
        self.failures = []         # property failures found on the implementation
        self.known_hits = {}       # finding id -> (finding, count, first failure)
        self.evaluations = 0
        self.distinct = set()
        self.samples = []
        self.rules = []
        self.stats = {}
        self.trusted = []
        self.assumptions = []
        self.exhaustive = False
        self.known = load_known()

    # obligations
    def oblige(self, name, kind, ok, detail=''):
        self.obligations.append({'name': name, 'kind': kind, 'ok': bool(ok),
                                 'detail': str(detail)[:600]})

    def broken(self):
        return [o for o in self.obligations if not o['ok']]

    # exploration bookkeeping
    def count(self, key=None, nontrivial=True):
        self.evaluations += 1
        if key is not None and nontrivial:
            self.distinct.add(hashlib.sha1(repr(key).encode()).hexdigest()[:16])

    def sample(self, s, limit=6):
        if len(self.samples) < limit:
            self.samples.append(enc(s))

    def stat(self, k, n=1):
        self.stats[k] = self.stats.get(k, 0) + n

    def fail(self, check, case, observed, expected, features=None, msg=''):
        f = {'check': check, 'case': enc(case), 'observed': enc(observed),
             'expected': enc(expected), 'features': enc(features or {}), 'msg': msg}
        k = match_known(self.prop, f, self.known)
        if k is not None:
            e = self.known_hits.setdefault(k['id'], [k, 0, f])
            e[1] += 1
            return False
        self.failures.append(f)
        return True

    def rng(self, salt=''):
        h = int(hashlib.sha256(f'{self.prop}/{self.seed}/{salt}'.encode()).hexdigest()[:16], 16)
        return np.random.Generator(np.random.PCG64(h))


def write_replay(ctx, payload, tag):
    os.makedirs(REPLAYS, exist_ok=True)
    p = os.path.join(REPLAYS, f'{ctx.prop}-{ctx.tier}-{ctx.seed}-{tag}.json')
    with open(p, 'w') as f:
        json.dump(payload, f, indent=1)
    return p


def finish(ctx, level='proof', checker_cmd=''):
    """Print verdict lines, write evidence, return exit code."""
    for fid, (k, n, f) in sorted(ctx.known_hits.items()):
        print(f"KNOWN-FINDING: property={ctx.prop} {fid} {k.get('summary', '')} "
              f"(hit {n}x, e.g. {f.get('msg', '')[:120]})")
    broken = ctx.broken()
    code = 0
    if ctx.failures:
        f0 = ctx.failures[0]
        path = write_replay(ctx, {'property': ctx.prop, 'kind': 'failing-input',
                                  'check': f0['check'], 'failure': f0,
                                  'n_failures': len(ctx.failures),
                                  'broken_obligations': broken,
                                  'more': ctx.failures[1:5],
                                  'replay_cmd': f'./check {ctx.prop} --replay <this file>'},
                            'fail')
        print(f"  failing input: check={f0['check']} {f0['msg'][:300]}")
        print(f'VIOLATION property={ctx.prop} replay={path}')
        code = 1
    elif broken:
        path = write_replay(ctx, {'property': ctx.prop, 'kind': 'broken-obligation',
                                  'broken_obligations': broken,
                                  'note': 'a proof obligation / translation site / correspondence '
                                          'component no longer checks; the failing-input search on '
                                          'the implementation found nothing'}, 'broken')
        for o in broken[:5]:
            print(f"  broken obligation: {o['kind']}:{o['name']} {o['detail'][:200]}")
        print(f'VIOLATION property={ctx.prop} replay={path} no-failing-input-found')
        code = 1
    n_obl = len(ctx.obligations)
    n_ok = n_obl - len(broken)
    ev = {
        'property_id': ctx.prop, 'tier': ctx.tier, 'seed': int(ctx.seed), 'level': level,
        'coverage': {
            'obligations': n_obl, 'discharged': n_ok,
            'checker_cmd': checker_cmd or f'cd lean && lake build FFVerif.Props.{ctx.prop} && '
                                          f'lake env lean FFVerif/Audit/{ctx.prop}.lean',
            'trusted_base': ctx.trusted,
            'obligation_list': [{'name': o['name'], 'kind': o['kind'], 'ok': o['ok']}
                                for o in ctx.obligations],
            'evaluations': ctx.evaluations, 'distinct_nontrivial': len(ctx.distinct),
            'rule': ' | '.join(ctx.rules), 'samples': ctx.samples, 'stats': ctx.stats,
            'exhaustive': ctx.exhaustive,
            'known_findings_hit': {k: v[1] for k, v in ctx.known_hits.items()},
        },
        'assumptions': ctx.assumptions,
        'wall_s': round(time.time() - ctx.t0, 2),
        'violations': len(ctx.failures) + (1 if (broken and not ctx.failures) else 0),
    }
    os.makedirs(EVID, exist_ok=True)
    with open(os.path.join(EVID, ctx.prop + '.json'), 'w') as f:
        json.dump(ev, f, indent=1)
    print(f'{ctx.prop} tier={ctx.tier} seed={ctx.seed}: obligations {n_ok}/{n_obl}, '
          f'evaluations {ctx.evaluations}, distinct {len(ctx.distinct)}, '
          f'failures {len(ctx.failures)}, known {sum(v[1] for v in ctx.known_hits.values())}, '
          f'{ev["wall_s"]} s -> exit {code}')
    return code
