"""Witness for the limit of property C11 documented by `C11.infidelityDeriv_nontraceless_gap`:
`gradient.infidelity_derivative` differentiates the UNCORRECTED integral int S F_aa dw/(2 pi d)
(F_aa = sum over ALL basis elements), whereas `numeric.infidelity` subtracts the identity component
of a noise operator with a trace (traceless basis).  For constant sensitivities the identity component
does not depend on the controls (no gap, `C11.identity_component_independent_of_control`); with
control-dependent sensitivities (`n_coeffs_deriv`) it does, and `infidelity_derivative` is NOT the
derivative of `ff.infidelity`.

Run with /venv/bin/python.  Prints the deviations; exit 1 iff the gap is present (> 1e-6).
"""
import os
import sys
sys.path.insert(0, os.environ.get('FFV_REPO', '/repo'))
import numpy as np  # noqa: E402
import filter_functions as ff  # noqa: E402
from filter_functions import gradient, util  # noqa: E402

rng = np.random.default_rng(1)
X, Y, Z = util.paulis[1:]
nG = 4
dt = rng.uniform(0.5, 1.5, nG)
ux = rng.normal(size=nG)
uy = rng.normal(size=nG)
omega = np.linspace(0.1, 5, 40)
S = 1/omega
P = (np.eye(2) + Z)/2


def sens(ux, uy, mode):
    if mode == 'const':
        return np.array([0.7, 1.3, 0.5, 1.1])
    return 1 + 0.3*ux + 0.2*uy**2          # depends on the controls of the same segment only


def pulse(ux, uy, mode, nop):
    return ff.PulseSequence([[X, ux, 'X'], [Y, uy, 'Y']], [[nop, sens(ux, uy, mode), 'N']], dt,
                            basis=ff.Basis.pauli(1))


def uncorrected(p):
    F = p.get_filter_function(omega)
    return util.integrate((F[0, 0]*S).real, omega)/(2*np.pi*p.d)


def fd(fun, mode, nop, eps=1e-6):
    out = np.zeros((1, nG, 2))
    for t in range(nG):
        for h in range(2):
            a = [ux.copy(), uy.copy()]
            b = [ux.copy(), uy.copy()]
            a[h][t] += eps
            b[h][t] -= eps
            out[0, t, h] = (fun(pulse(a[0], a[1], mode, nop)) - fun(pulse(b[0], b[1], mode, nop)))/(2*eps)
    return out


gap = 0.0
for nopname, nop in [('(1+Z)/2', P), ('Z/2', Z/2)]:
    for mode in ['const', 'dep']:
        ncd = None
        if mode == 'dep':
            ncd = np.zeros((1, 2, nG))
            ncd[0, 0] = 0.3
            ncd[0, 1] = 0.4*uy
        g = gradient.infidelity_derivative(pulse(ux, uy, mode, nop), S, omega, n_coeffs_deriv=ncd)
        d_inf = np.abs(g - fd(lambda p: ff.infidelity(p, S, omega)[0], mode, nop)).max()
        d_unc = np.abs(g - fd(uncorrected, mode, nop)).max()
        print(f'noise op {nopname:8s} sensitivities {mode:5s}: max|grad| = {np.abs(g).max():.4f}   '
              f'|grad - FD(ff.infidelity)| = {d_inf:.3e}   |grad - FD(uncorrected integral)| = {d_unc:.3e}')
        gap = max(gap, d_inf)
sys.exit(1 if gap > 1e-6 else 0)
