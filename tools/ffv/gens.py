"""Structured generators of pulses / bases / spectra built from the package's own types, and
independent specification evaluators (the oracles of the failing-input searches).

Descriptions ("desc") are plain dicts of numpy arrays so that a case can be stored in a replay
file and rebuilt exactly."""
import numpy as np

import filter_functions as ff
from filter_functions import util

PAULI = util.paulis  # (4,2,2): I X Y Z


# ------------------------------------------------------------------------------------------------
# random matrices
# ------------------------------------------------------------------------------------------------
def rand_herm(rng, d, traceless=False, scale=1.0):
    a = rng.standard_normal((d, d)) + 1j*rng.standard_normal((d, d))
    h = (a + a.conj().T)/2*scale
    if traceless:
        h = h - np.trace(h)/d*np.eye(d)
    return h


def rand_unitary(rng, d):
    a = rng.standard_normal((d, d)) + 1j*rng.standard_normal((d, d))
    q, r = np.linalg.qr(a)
    return q*(np.diag(r)/np.abs(np.diag(r)))


def rand_orthogonal(rng, n):
    q, r = np.linalg.qr(rng.standard_normal((n, n)))
    return q*np.sign(np.diag(r))


def struct_herm(rng, d):
    """structured Hermitian operators: Paulis / GGM elements / projectors / diagonal"""
    k = rng.integers(0, 4)
    if k == 0:
        g = ff.Basis.ggm(d)
        return np.array(g[rng.integers(1, d*d)])*np.sqrt(d)
    if k == 1:
        v = np.zeros(d)
        v[rng.integers(0, d)] = 1
        return np.diag(v).astype(complex)
    if k == 2:
        return np.diag(rng.integers(-2, 3, d)).astype(complex)
    return rand_herm(rng, d)


# ------------------------------------------------------------------------------------------------
# bases
# ------------------------------------------------------------------------------------------------
def make_basis(spec, d):
    """spec: ('pauli',) | ('ggm',) | ('custom', array, traceless_flag, btype)"""
    kind = spec[0]
    if kind == 'pauli':
        n = int(round(np.log2(d)))
        assert 2**n == d
        return ff.Basis.pauli(n)
    if kind == 'ggm':
        return ff.Basis.ggm(d)
    if kind == 'custom':
        return ff.Basis(np.asarray(spec[1]), traceless=spec[2] if len(spec) > 2 else None,
                        btype=spec[3] if len(spec) > 3 else None)
    if kind == 'derived':
        # a basis obtained from another Basis *object* through numpy machinery, after the parent
        # has computed (and cached) its own derived quantities: spec = ('derived', parent spec,
        # how, seed).  The derived basis is a different basis of the same shape.
        parent = make_basis(spec[1], d)
        if len(parent) <= 16:
            parent.four_element_traces      # (N^4 entries: only for small bases)
        parent.isherm, parent.isorthonorm, parent.istraceless, parent.iscomplete
        r = np.random.default_rng(spec[3])
        n = len(parent)
        how = spec[2]
        if how == 'permute':
            perm = np.concatenate(([0], 1 + r.permutation(n - 1)))
            return parent[perm]
        if how in ('swap2', 'swap_last'):
            # the parent with just two elements exchanged (two random non-identity ones / the last
            # two): a basis that agrees with a standard one almost everywhere
            perm = np.arange(n)
            i, j = (n - 2, n - 1) if how == 'swap_last' else (1 + r.choice(n - 1, 2, replace=False))
            perm[[i, j]] = perm[[j, i]]
            return parent[perm]
        if how == 'subset':
            # an incomplete basis cut out of a complete one (whose flags are already evaluated)
            k = int(r.integers(1, n))
            return parent[np.sort(r.choice(n, k, replace=False))]
        if how == 'conj':
            return parent.conj()
        if how == 'transpose':
            return parent.transpose(0, 2, 1)
        if how == 'ctor':
            perm = np.concatenate(([0], 1 + r.permutation(n - 1)))
            return ff.Basis(parent[perm], btype=parent.btype)
        if how == 'scale_normalize':
            b = (parent*2.0)[np.concatenate(([0], 1 + r.permutation(n - 1)))]
            b.normalize()
            return b
        raise ValueError(how)
    raise ValueError(kind)


def signed_shuffled_basis(rng, d, traceless=True):
    """complete orthonormal Hermitian basis with random signs of the elements (the identity element of
    a traceless basis may be -1/sqrt(d)) in random order (the identity need not be first)"""
    arr = rotated_basis(rng, d, traceless)
    arr = arr*rng.choice([-1.0, 1.0], len(arr))[:, None, None]
    return arr[rng.permutation(len(arr))]


def rotated_basis(rng, d, traceless):
    """complete orthonormal Hermitian basis = real orthogonal mixture of GGM"""
    g = np.array(ff.Basis.ggm(d))
    n = d*d
    if traceless:
        o = np.eye(n)
        o[1:, 1:] = rand_orthogonal(rng, n - 1)
    else:
        o = rand_orthogonal(rng, n)
    return np.einsum('ij,jkl->ikl', o, g)


def nonhermitian_basis(rng, d):
    """a complete orthonormal basis with NON-Hermitian elements: a complex unitary mixture of the
    Gell-Mann elements (d = 2: close to {1, Z, sigma_+, sigma_-} in spirit)"""
    g = np.array(ff.Basis.ggm(d))
    return np.einsum('kl,lij->kij', rand_unitary(rng, d*d), g)


def rand_basis_spec(rng, d, allow_incomplete=False, allow_nonherm=False):
    ks = ['ggm', 'rot_tl', 'rot_ntl']
    if allow_nonherm and rng.random() < 0.15:
        return ('custom', nonhermitian_basis(rng, d), False, 'Custom')
    if d in (2, 4, 8):
        ks.append('pauli')
    if allow_incomplete:
        ks.append('incomplete')
    k = ks[rng.integers(0, len(ks))]
    if k in ('pauli', 'ggm'):
        return (k,)
    if k == 'rot_tl':
        return ('custom', rotated_basis(rng, d, True), True, 'Custom')
    if k == 'rot_ntl':
        return ('custom', rotated_basis(rng, d, False), False, 'Custom')
    b = rotated_basis(rng, d, False)
    m = rng.integers(1, d*d)
    return ('custom', b[:m], False, 'Custom')


# ------------------------------------------------------------------------------------------------
# pulses
# ------------------------------------------------------------------------------------------------
def rand_desc(rng, d=None, n_dt=None, n_c=None, n_n=None, basis=None, features=None):
    """Random pulse description. `features`: set of strings switching on special structure:
    'idle' (a segment with all-zero controls), 'zero_dt' (a zero-length segment), 'repeat'
    (two equal consecutive segments), 'big_angle', 'wide_dt' (durations over many decades),
    'degenerate' (control operator with degenerate spectrum), 'commuting' (noise op commutes with
    control), 'zero_nop', 'nontraceless_nop', 'neg_sens'."""
    features = set(features or ())
    d = d or int(rng.choice([2, 2, 3, 4]))
    n_dt = n_dt or int(rng.integers(1, 5))
    n_c = n_c or int(rng.integers(1, 3))
    n_n = n_n or int(rng.integers(1, 3))
    c_opers = np.array([rand_herm(rng, d, traceless=bool(rng.integers(0, 2))) for _ in range(n_c)])
    if 'degenerate' in features:
        v = np.zeros(d)
        v[0] = 1.0
        u = rand_unitary(rng, d)
        c_opers[0] = u @ np.diag(v) @ u.conj().T
    if 'structured' in features:
        c_opers = np.array([struct_herm(rng, d) for _ in range(n_c)])
    c_coeffs = rng.standard_normal((n_c, n_dt))
    if 'big_angle' in features:
        c_coeffs *= 40
    dt = rng.uniform(0.1, 2.0, n_dt)
    if 'wide_dt' in features:
        dt = 10.0**rng.uniform(-3, 3, n_dt)
        c_coeffs = c_coeffs/np.maximum(dt, 1e-3)[None, :]*rng.uniform(0.2, 3)
    if 'idle' in features:
        c_coeffs[:, rng.integers(0, n_dt)] = 0
    if 'zero_dt' in features and n_dt > 1:
        dt[rng.integers(0, n_dt)] = 0.0
    if 'repeat' in features and n_dt > 1:
        g = rng.integers(0, n_dt - 1)
        c_coeffs[:, g + 1] = c_coeffs[:, g]
    if 'near_repeat' in features and n_dt > 1:
        # two consecutive segments of exactly equal duration whose (strong) control amplitudes
        # differ by a few parts per million: "equal within tolerance" is not "equal"
        g = int(rng.integers(0, n_dt - 1))
        amp = rng.uniform(60, 300)/max(np.linalg.norm(c_coeffs[:, g]), 1e-3)
        c_coeffs[:, g] *= amp
        c_coeffs[:, g + 1] = c_coeffs[:, g]*(1 + rng.uniform(2e-6, 9e-6)*rng.choice([-1.0, 1.0]))
        dt[g + 1] = dt[g] = rng.uniform(0.3, 1.5)
    if 'full_rotation' in features:
        # a segment (not the last one if there are several) whose level splitting times its duration
        # is an exact non-zero multiple of 2 pi: the segment propagator has a degenerate phase
        # although the Hamiltonian is not degenerate (for d = 2 it is -1 or +1)
        g = int(rng.integers(0, max(n_dt - 1, 1)))
        lam = np.linalg.eigvalsh(np.einsum('ijk,i->jk', c_opers, c_coeffs[:, g]))
        gaps = [x for x in np.subtract.outer(lam, lam).ravel() if x > 0.2]     # (durations stay below ~60)
        if gaps:
            dt[g] = 2*np.pi*int(rng.integers(1, 3))/float(rng.choice(gaps))
    n_opers = []
    for a in range(n_n):
        tl = 'nontraceless_nop' not in features
        n_opers.append(rand_herm(rng, d, traceless=tl))
    n_opers = np.array(n_opers)
    if 'projector_nop' in features:
        # a structured noise operator with a trace: the projector on one level other than the first
        # (first row and column zero, trace one), possibly next to generic ones
        k = int(rng.integers(1, d))
        n_opers[0] = 0
        n_opers[0][k, k] = 1.0
        if len(n_opers) > 1 and rng.random() < 0.5:
            n_opers[1] = 0
            n_opers[1][0, 0] = 1.0
    if 'commuting' in features:
        n_opers[0] = c_opers[0]
    if 'zero_nop' in features:
        n_opers[-1] = 0
    n_coeffs = rng.uniform(0.2, 1.5, (n_n, n_dt))
    if 'neg_sens' in features:
        n_coeffs *= rng.choice([-1.0, 1.0], (n_n, n_dt))
    if 'const_sens' in features:
        n_coeffs = np.repeat(n_coeffs[:, :1], n_dt, axis=1)
    if 'cancel_sens' in features and n_n >= 2:
        # differential noise: on some segments the sensitivities of the operators cancel exactly
        for g in range(n_dt):
            if rng.random() < 0.6:
                n_coeffs[-1, g] = -np.sum(n_coeffs[:-1, g])
    basis = basis if basis is not None else rand_basis_spec(rng, d)
    return dict(d=d, c_opers=c_opers, c_ids=[f'C{i}' for i in range(n_c)], c_coeffs=c_coeffs,
                n_opers=n_opers, n_ids=[f'N{i}' for i in range(n_n)], n_coeffs=n_coeffs, dt=dt,
                basis=basis, features=sorted(features))


def rescale_time(desc, lam):
    """the same pulse in another unit of time: durations times lam, control amplitudes divided by lam
    (angles, propagators and everything dimensionless unchanged)"""
    dd = dict(desc)
    dd['c_coeffs'] = np.asarray(desc['c_coeffs'], dtype=float)/lam
    dd['dt'] = np.asarray(desc['dt'], dtype=float)*lam
    dd['features'] = sorted(set(desc['features']) | {'time_unit'})
    return dd


FEATURES = ['idle', 'zero_dt', 'repeat', 'big_angle', 'wide_dt', 'degenerate', 'commuting',
            'zero_nop', 'nontraceless_nop', 'neg_sens', 'structured', 'cancel_sens', 'near_repeat',
            'full_rotation', 'projector_nop']


def rand_features(rng, p=0.25, pool=None):
    pool = pool or FEATURES
    return [f for f in pool if rng.random() < p]


def _coeff_container(c, form):
    """the same numbers in another admissible container: Python ints, a float32 array, a list"""
    if form == 'int':
        return [int(round(float(x))) for x in c]
    if form == 'f32':
        return np.asarray(c, dtype=np.float32)
    if form == 'list':
        return [float(x) for x in c]
    return np.array(c)


def set_coeff_form(desc, form, which=('c_coeffs',)):
    """switch the container in which `build` hands the coefficients to the constructor; the values
    in the description are made exactly representable in it"""
    dd = dict(desc)
    for key in which:
        v = np.asarray(desc[key], dtype=float)
        if form == 'int':
            v = np.round(2*v)
        elif form == 'f32':
            v = v.astype(np.float32).astype(float)
        dd[key] = v
        dd[key + '_form'] = form
    dd['features'] = sorted(set(desc['features']) | {'coeffs_as_' + form})
    return dd


def build(desc, basis=True):
    H_c = [[np.array(o), _coeff_container(c, desc.get('c_coeffs_form')), i] for o, c, i in
           zip(desc['c_opers'], desc['c_coeffs'], desc['c_ids'])]
    H_n = [[np.array(o), _coeff_container(c, desc.get('n_coeffs_form')), i] for o, c, i in
           zip(desc['n_opers'], desc['n_coeffs'], desc['n_ids'])]
    if basis and desc.get('basis') is not None:
        return ff.PulseSequence(H_c, H_n, np.array(desc['dt']), make_basis(desc['basis'], desc['d']))
    return ff.PulseSequence(H_c, H_n, np.array(desc['dt']))


def prehistory(p, rng, n_omega=None, steps=None):
    """Apply a random history of cache-affecting public calls (other frequency grids of the same
    and of different length, both orders, intermediates, clean-ups, copies) to a pulse object, so
    that a property check runs on an object with a non-trivial cache state. Returns the pulse."""
    import copy as _copy
    n_omega = n_omega or int(rng.integers(3, 8))
    grids = [np.sort(rng.uniform(0.1, 7, n_omega)), np.sort(rng.uniform(0.1, 7, n_omega)),
             np.sort(rng.uniform(0.1, 7, n_omega + 2))]
    for _ in range(steps or int(rng.integers(1, 6))):
        w = grids[int(rng.integers(0, 3))]
        k = int(rng.integers(0, 12))
        try:
            if k == 0:
                p.get_control_matrix(w, cache_intermediates=bool(rng.integers(0, 2)))
            elif k == 1:
                p.get_filter_function(w, which=str(rng.choice(['fidelity', 'generalized'])))
            elif k == 2:
                p.get_filter_function(w, order=2)
            elif k == 3:
                p.cleanup(str(rng.choice(['conservative', 'greedy', 'frequency dependent'])))
            elif k == 4:
                p.get_total_phases(w)
            elif k == 5:
                p.cache_control_matrix(w, cache_intermediates=True)
            elif k == 6:
                _copy.copy(p).get_filter_function(grids[int(rng.integers(0, 3))], order=2)
            elif k == 7:
                p.diagonalize()
            elif k == 8:
                ff.infidelity(p, 1/(1 + w), w)
            elif k == 9:
                p.cache_filter_function(w, order=2)
            elif k == 10:
                p.get_filter_function_derivative(w)
            else:
                p.total_propagator_liouville
        except Exception:   # noqa  (a failing call is part of the history)
            pass
    return p


def touch(p, rng, omega, kinds=('phases', 'cache_phases', 'ff1', 'ff2', 'cm')):
    """one request of another kind on the grid that the check is about to use"""
    k = str(rng.choice(list(kinds)))
    try:
        if k == 'phases':
            p.get_total_phases(omega)
        elif k == 'cache_phases':
            p.cache_total_phases(omega)
        elif k == 'ff1':
            p.get_filter_function(omega, which=str(rng.choice(['fidelity', 'generalized'])))
        elif k == 'ff2':
            p.get_filter_function(omega, order=2)
        elif k == 'cm':
            p.get_control_matrix(omega, cache_intermediates=bool(rng.integers(0, 2)))
        elif k == 'cache_ff2':
            # explicit cacher of the second-order filter function (computes from the intermediates)
            p.cache_filter_function(omega, order=2)
        elif k == 'cache_ff1':
            p.cache_filter_function(omega, which=str(rng.choice(['fidelity', 'generalized'])))
    except Exception:   # noqa
        pass
    return p


def build_used(desc, rng, prob=0.5, n_omega=None, omega=None, touch_kinds=None):
    """a pulse built from desc that, with probability prob, has a random cache history; if omega
    is given, half of the time one request of another kind is made on that grid at the end"""
    p = _build_used(desc, rng, prob, n_omega)
    if omega is not None and touch_kinds and rng.random() < 0.5:
        touch(p, rng, omega, touch_kinds)
    return p


def _build_used(desc, rng, prob=0.5, n_omega=None):
    n = len(desc['dt'])
    if n >= 2 and rng.random() < 0.3*prob/0.5:
        # the same pulse obtained by concatenating its two halves with pulse-correlation filter
        # functions on some other grid
        k = int(rng.integers(1, n))
        halves = []
        for sl in (slice(0, k), slice(k, n)):
            h = dict(desc)
            h['c_coeffs'] = np.asarray(desc['c_coeffs'])[:, sl]
            h['n_coeffs'] = np.asarray(desc['n_coeffs'])[:, sl]
            h['dt'] = np.asarray(desc['dt'])[sl]
            halves.append(build(h))
        try:
            w = np.sort(rng.uniform(0.1, 7, n_omega or int(rng.integers(3, 8))))
            p = ff.concatenate(halves, calc_pulse_correlation_FF=True, omega=w,
                               which=str(rng.choice(['fidelity', 'generalized'])))
            prehistory(p, rng, n_omega)
            return p
        except ValueError:
            pass     # e.g. non-constant sensitivity of an operator: fall back to the plain pulse
    p = build(desc)
    if rng.random() < prob:
        prehistory(p, rng, n_omega)
    return p


def basis_array(desc):
    return np.array(make_basis(desc['basis'], desc['d']))


def sorted_nops(desc):
    """noise operators / coefficients in the package's storage order (sorted by identifier)"""
    idx = np.argsort(desc['n_ids'])
    return (np.array(desc['n_opers'])[idx], np.array(desc['n_coeffs'])[idx],
            [desc['n_ids'][i] for i in idx])


# ------------------------------------------------------------------------------------------------
# specification evaluators (independent of the package's numerics)
# ------------------------------------------------------------------------------------------------
def exprel_i(x):
    """(e^{ix} - 1)/(ix) evaluated stably for all real x (= sinc form; 1 at x = 0)."""
    x = np.asarray(x, dtype=float)
    return np.sinc(x/np.pi) + 1j*(x/2)*np.sinc(x/(2*np.pi))**2


def seg_hamiltonians(desc):
    return np.einsum('ijk,il->ljk', np.asarray(desc['c_opers']), np.asarray(desc['c_coeffs']))


def spec_propagators(desc):
    """cumulative propagators Q_0..Q_G from independent eigendecompositions"""
    H = seg_hamiltonians(desc)
    d = desc['d']
    Q = [np.eye(d, dtype=complex)]
    eig = []
    for g, dtg in enumerate(desc['dt']):
        lam, V = np.linalg.eigh(H[g])
        eig.append((lam, V))
        P = (V*np.exp(-1j*lam*dtg)[None, :]) @ V.conj().T
        Q.append(P @ Q[-1])
    return np.array(Q), eig


def spec_control_matrix(desc, omega, nops=None, ncoeffs=None, basis=None):
    """B_ak(w) = int_0^tau e^{iwt} s_a(t) tr(U(t)^† B_a U(t) C_k) dt by exact segment-wise
    integration in the eigenbasis, with the cancellation-free sinc form of the segment integral.
    Rows in the package's order (noise identifiers sorted)."""
    omega = np.asarray(omega, dtype=float)
    if nops is None:
        nops, ncoeffs, _ = sorted_nops(desc)
    C = basis_array(desc) if basis is None else basis
    Q, eig = spec_propagators(desc)
    t = np.concatenate(([0.0], np.cumsum(desc['dt'])))
    B = np.zeros((len(nops), len(C), len(omega)), dtype=complex)
    for g, dtg in enumerate(desc['dt']):
        lam, V = eig[g]
        W = V.conj().T @ Q[g]                      # V^† Q_{g-1}
        Ct = W @ C @ W.conj().T                    # (k, n, m)
        Bt = V.conj().T @ nops @ V                 # (a, m, n)
        x = omega[:, None, None] + (lam[:, None] - lam[None, :])[None]     # (o, m, n)
        I = dtg*exprel_i(x*dtg)
        ph = np.exp(1j*omega*t[g])
        B += np.einsum('o,a,amn,omn,knm->ako', ph, ncoeffs[:, g], Bt, I, Ct, optimize=True)
    return B


def spec_control_matrix_quad(desc, omega, n_sub=400):
    """Brute-force check of the oracle itself: Gauss-Legendre quadrature of the defining integral
    with matrix exponentials. Only used in self-tests of the machinery."""
    from scipy.linalg import expm
    nops, ncoeffs, _ = sorted_nops(desc)
    C = basis_array(desc)
    H = seg_hamiltonians(desc)
    d = desc['d']
    xs, ws = np.polynomial.legendre.leggauss(24)
    B = np.zeros((len(nops), len(C), len(omega)), dtype=complex)
    Q = np.eye(d, dtype=complex)
    t0 = 0.0
    for g, dtg in enumerate(desc['dt']):
        n_pan = max(1, int(n_sub*dtg/max(sum(desc['dt']), 1e-300)))
        edges = np.linspace(0, dtg, n_pan + 1)
        for a_, b_ in zip(edges[:-1], edges[1:]):
            for xq, wq in zip(xs, ws):
                s = (a_ + b_)/2 + (b_ - a_)/2*xq
                U = expm(-1j*H[g]*s) @ Q
                M = np.einsum('ij,ajk,kl->ail', U.conj().T, nops, U)
                tr = np.einsum('aij,kji->ak', M, C)
                B += (wq*(b_ - a_)/2)*np.exp(1j*omega*(t0 + s))[None, None, :] \
                    * (ncoeffs[:, g][:, None]*tr)[:, :, None]
        Q = expm(-1j*H[g]*dtg) @ Q
        t0 += dtg
    return B


def resonant_omegas(rng, desc, thr=1e-7, n_extra=4):
    """frequencies aimed at the small-denominator windows: exactly on, just inside and just
    outside every resonance -(lam_m - lam_n) of every segment, plus 0, negatives, generic ones."""
    H = seg_hamiltonians(desc)
    cand = [0.0]
    for g in range(len(H)):
        lam = np.linalg.eigvalsh(H[g])
        dl = np.subtract.outer(lam, lam).ravel()
        dtg = max(desc['dt'][g], 1e-12)
        for x in rng.choice(dl, size=min(3, len(dl)), replace=False):
            for off in (0.0, 1e-12, 0.5*thr, 0.99*thr, 1.01*thr, 0.99*thr/dtg, 1.01*thr/dtg, 1e-3):
                cand.append(-x + off*rng.choice([-1, 1]))
    cand += list(rng.uniform(-20, 20, n_extra))
    cand += list(10.0**rng.uniform(-3, 2, n_extra))
    return np.array(cand, dtype=float)


def rel_err(a, b):
    """max |a-b| relative to the largest entry of b (absolute if b == 0)"""
    a = np.asarray(a)
    b = np.asarray(b)
    if a.shape != b.shape:
        return np.inf
    if a.size == 0:
        return 0.0
    if not (np.all(np.isfinite(a))):
        return np.inf
    scale = max(np.max(np.abs(b)), 1e-300)
    return float(np.max(np.abs(a - b))/scale)


def abs_err(a, b, floor=1.0):
    a = np.asarray(a)
    b = np.asarray(b)
    if a.shape != b.shape:
        return np.inf
    if a.size == 0:
        return 0.0
    if not np.all(np.isfinite(a)):
        return np.inf
    return float(np.max(np.abs(a - b))/max(floor, np.max(np.abs(b))))


# ------------------------------------------------------------------------------------------------
# spectra
# ------------------------------------------------------------------------------------------------
def rand_spectrum(rng, n_nops, omega, shape):
    """shape 1: (n_omega,), 2: (n_nops, n_omega), 3: Hermitian PSD (n_nops,n_nops,n_omega)"""
    no = len(omega)
    base = 1.0/(1.0 + np.abs(omega))**rng.uniform(0, 2)
    if shape == 1:
        return base*rng.uniform(0.5, 2)
    if shape == 2:
        return base[None, :]*rng.uniform(0.5, 2, (n_nops, 1))
    A = rng.standard_normal((n_nops, n_nops)) + 1j*rng.standard_normal((n_nops, n_nops))
    S0 = A @ A.conj().T
    return S0[:, :, None]*base[None, None, :]


def rand_omega_grid(rng, n=None, two_sided=False):
    n = n or int(rng.integers(5, 40))
    w = np.sort(10.0**rng.uniform(-2, 1.5, n))
    if rng.random() < 0.3:
        w = np.linspace(0.01, rng.uniform(5, 30), n)
    if two_sided:
        w = np.concatenate((-w[::-1], w))
    return w
