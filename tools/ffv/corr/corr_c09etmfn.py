#!/venv/bin/python
"""Correspondence check for the Lean model of numeric.error_transfer_matrix and of the argument
plumbing / branch selection of numeric.calculate_cumulant_function
(FFVerif/Model/EtmFn.lean, driver components `etmfn`, `etmgiven`, `cumfn`).

scipy.linalg.expm is an oracle of the model: it is wrapped in the numeric module so that the array
handed to it by error_transfer_matrix is captured; that array is compared with the model's output.

  etmfn/pulse      : error_transfer_matrix(pulse, spectrum, omega, ids, second_order, ...) — captured
                     expm argument vs `etmfn` fed with the pulse's control matrix / generalized filter
                     function / second-order filter function (d = 2 Pauli, d = 2 GGM, d = 2 custom
                     basis with and without a Pauli label, d = 3 GGM; all three spectrum shapes;
                     second_order; identifier subsets; memory_parsimonious; cached generalized FF)
  etmfn/modes      : the real function's two input modes against each other (returned matrix)
  etmgiven         : error_transfer_matrix(cumulant_function=K) for 0..4 leading axes, non-square,
                     1-d, 0-d, non-array arguments (values and exception classes)
  etmfn/reject     : missing pulse / spectrum / omega (exception classes)
  cumfn/total      : calculate_cumulant_function(which='total'), computed and precomputed
                     decay_amplitudes / frequency_shifts, rejections
  cumfn/corr       : calculate_cumulant_function(which='correlations') on concatenated pulses
  branch           : which branch the source takes (single-qubit shortcut vs general; observed by
                     wrapping Basis.four_element_traces) vs the model's `shortcutTaken`

Deviations of quantities that are LINEAR in the decay amplitudes / frequency shifts (the cumulant
function, the argument of expm) are measured relative to max(max |reference|, max |inputs|): where
the exact value vanishes by cancellation (zero spectrum + purely imaginary user-supplied decay
amplitudes: Re(i x) = 0) both sides are rounding noise ~1e-17 and a deviation relative to the
reference alone is meaningless (this made the thorough tier report 1.0 for cases 15 and 51).
Every MISMATCH line carries the case parameters; FFV_DUMPBAD=<file> appends the failing requests.

Usage: /venv/bin/python corr_c09etmfn.py [n_random_cases] [seed]
"""
import os
import struct
import subprocess
import sys
import warnings

sys.path.insert(0, os.environ.get('FFV_REPO', '/repo'))
import numpy as np                                                  # noqa: E402

import filter_functions as ff                                       # noqa: E402
from filter_functions import numeric, util                          # noqa: E402
from filter_functions import basis as ffbasis                       # noqa: E402

LEAN = os.environ.get('FFV_LEAN', '/verif/lean')
TOL = 1e-9
warnings.filterwarnings('ignore')


def f2b(x):
    return str(struct.unpack('>Q', struct.pack('>d', float(x)))[0])


def b2f(s):
    return struct.unpack('>d', struct.pack('>Q', int(s)))[0]


def arr2bits(a):
    a = np.asarray(a)
    if np.iscomplexobj(a):
        flat = np.ascontiguousarray(a).astype(complex).view(float).ravel()
    else:
        flat = a.astype(float).ravel()
    return ','.join(f2b(v) for v in flat) if flat.size else '-'


def carr2bits(a):
    return arr2bits(np.asarray(a).astype(complex))


def bits2arr(s, shape=None):
    vals = np.array([b2f(t) for t in s.split(',') if t and t != '-'], dtype=float)
    return vals.reshape(shape) if shape is not None else vals


def driver(lines):
    inp = '\n'.join(lines) + '\n'
    p = subprocess.run(['lake', 'env', 'lean', '--run', 'Driver.lean'], cwd=LEAN, input=inp,
                       capture_output=True, text=True, timeout=7200)
    if p.returncode != 0:
        raise RuntimeError('lean driver failed: ' + (p.stderr or p.stdout)[-2000:])
    res = [ln for ln in p.stdout.split('\n') if ln.startswith('ok') or ln.startswith('err')]
    if len(res) != len(lines):
        raise RuntimeError(f'driver answered {len(res)} lines for {len(lines)} requests')
    return res


PAULI = [np.array(m, dtype=complex) for m in
         ([[0, 1], [1, 0]], [[0, -1j], [1j, 0]], [[1, 0], [0, -1]])]

ERRCLASS = {
    'require-cumulant-or-pulse': ('ValueError',),
    'require-spectrum-or-amplitudes': ('ValueError',),
    'correlations-second-order': ('ValueError',),
    'shifts-shape': ('ValueError',),
    'invalid-type': ('TypeError',),
    'invalid-shape': ('ValueError',),
    'callee-none': ('TypeError', 'AttributeError'),
}
ERRTEXT = {
    'require-cumulant-or-pulse': 'Require either precomputed cumulant function',
    'require-spectrum-or-amplitudes': 'Require either spectrum and frequencies',
    'correlations-second-order': 'Cannot compute correlation cumulant function',
    'shifts-shape': 'Frequency shifts not same shape',
    'invalid-type': 'cumulant_function invalid type',
    'invalid-shape': 'cumulant_function invalid shape',
    'callee-none': 'NoneType',
}


def herm(rng, d):
    a = rng.standard_normal((d, d)) + 1j*rng.standard_normal((d, d))
    return (a + a.conj().T)/2


def make_basis(rng, kind):
    """kind: pauli | ggm2 | ggm3 | custom2 (rotated Pauli basis, label Custom) | fakepauli2 (rotated
    basis carrying the label 'Pauli') | paulicustom (the Pauli matrices with label 'Custom') |
    nearpauli (Pauli basis perturbed by 1e-13, label 'Pauli': allclose -> shortcut)"""
    if kind == 'pauli':
        return ff.Basis.pauli(1)
    if kind == 'ggm2':
        return ff.Basis.ggm(2)
    if kind == 'ggm3':
        return ff.Basis.ggm(3)
    P = np.array(ff.Basis.pauli(1))
    if kind == 'paulicustom':
        return ff.Basis(P.copy(), btype='Custom')
    if kind == 'nearpauli':
        return ff.Basis(P + 1e-13*rng.standard_normal(P.shape), btype='Pauli')
    Q, _ = np.linalg.qr(rng.standard_normal((4, 4)))
    C = np.einsum('ij,jab->iab', Q, P)
    return ff.Basis(C, btype='Pauli' if kind == 'fakepauli2' else 'Custom')


def make_pulse(rng, bkind, n_dt, n_nops, kind):
    d = 3 if bkind == 'ggm3' else 2
    ids = [f'B{i}' for i in range(n_nops)]
    dt = rng.uniform(0.2, 1.5, n_dt)
    if kind == 'degenerate':
        c_opers = [np.eye(d, dtype=complex)]
        c_coeffs = [np.zeros(n_dt)]
    elif kind == 'diagonal':
        c_opers = [np.diag(rng.integers(-2, 3, d)).astype(complex)]
        c_coeffs = [rng.integers(1, 3, n_dt).astype(float)]
        dt = rng.integers(1, 3, n_dt).astype(float)
    else:
        nc = int(rng.integers(1, 3))
        c_opers = [PAULI[i % 3] if d == 2 else herm(rng, d) for i in range(nc)]
        c_coeffs = [rng.standard_normal(n_dt) for _ in range(nc)]
    n_opers = [(PAULI[(i + 2) % 3] if (d == 2 and i < 2) else herm(rng, d)) for i in range(n_nops)]
    n_coeffs = [rng.uniform(0.5, 1.5, n_dt) for _ in range(n_nops)]
    H_c = [[o, c, f'A{i}'] for i, (o, c) in enumerate(zip(c_opers, c_coeffs))]
    H_n = [[o, c, i] for o, c, i in zip(n_opers, n_coeffs, ids)]
    basis = make_basis(rng, bkind)

    def build():
        return ff.PulseSequence([[o.copy(), c.copy(), i] for o, c, i in H_c],
                                [[o.copy(), c.copy(), i] for o, c, i in H_n], dt.copy(), basis)
    return build, ids, basis


def make_spectrum(rng, shape, m, omega, special):
    nO = len(omega)
    if special == 'zero':
        base = np.zeros(nO)
    elif special == 'white':
        base = np.ones(nO)
    else:
        base = 1/(1 + omega**2)
    if shape == 1:
        return base*float(rng.uniform(0.5, 2)) if special != 'zero' else base
    if shape == 2:
        return np.array([base*float(rng.uniform(0.5, 2)) for _ in range(m)])
    A = rng.standard_normal((m, m, nO)) + 1j*rng.standard_normal((m, m, nO))
    S = np.einsum('abo,cbo->aco', A, A.conj())*base
    return (S + S.conj().swapaxes(0, 1))/2


def rel_err(got, ref, scale=0.0):
    """max |got - ref| relative to max(max |ref|, scale).  `scale` is the magnitude of the INPUTS the
    compared quantity is a linear function of (decay amplitudes, frequency shifts, summed blocks):
    when the exact result vanishes by cancellation (e.g. purely imaginary user-supplied decay
    amplitudes, zero spectrum) both sides are rounding noise of size eps*scale and a deviation
    relative to max |ref| alone would be meaningless."""
    if got is None or got.shape != ref.shape:
        return np.inf
    if ref.size == 0:
        return 0.0
    if not (np.all(np.isfinite(got)) and np.all(np.isfinite(ref))):
        return 0.0 if np.array_equal(np.isnan(got), np.isnan(ref)) else np.inf
    return float(np.max(np.abs(got - ref))/max(np.max(np.abs(ref)), float(scale), 1e-300))


def amax(*arrs):
    """largest modulus among the given (optional) arrays"""
    return max([float(np.max(np.abs(a))) for a in arrs if a is not None and np.size(a)] + [0.0])


class Capture:
    """wrap sla.expm inside the numeric module and Basis.four_element_traces"""

    def __enter__(self):
        self.args = []
        self.traces_read = 0
        self.orig = numeric.sla.expm
        cap = self

        def expm(a, *args, **kw):
            cap.args.append(np.array(a, copy=True))
            return cap.orig(a, *args, **kw)
        numeric.sla.expm = expm
        self.prop = ffbasis.Basis.four_element_traces
        fget = self.prop.fget

        def getter(b):
            cap.traces_read += 1
            return fget(b)
        ffbasis.Basis.four_element_traces = property(getter, self.prop.fset)
        return self

    def __exit__(self, *exc):
        numeric.sla.expm = self.orig
        ffbasis.Basis.four_element_traces = self.prop


def run_py(f):
    """returns ('ok', value) or ('err', class name, text)"""
    try:
        return ('ok', f())
    except BaseException as e:          # noqa: BLE001
        return ('err', type(e).__name__, str(e))


def btype_tok(b):
    return b.btype if b.btype in ('Pauli', 'GGM') else 'Other'


def close_tok(b):
    P = ff.Basis.pauli(1)
    if b.shape != P.shape:
        return '0'
    return '1' if np.allclose(np.asarray(b), np.asarray(P), atol=b._atol, rtol=b._rtol) else '0'


def shape_tok(sh):
    return ','.join(str(int(s)) for s in sh) if len(sh) else '-'


def arr_toks(a, N):
    """`shape data` tokens for an optional complex array with trailing (N, N)"""
    if a is None:
        return ['-', '-']
    a = np.asarray(a)
    assert a.shape[-2:] == (N, N)
    return [shape_tok(a.shape[:-2]), carr2bits(a)]


def main():
    quick = os.environ.get('FFV_TIER', 'thorough') == 'quick'
    n = int(sys.argv[1]) if len(sys.argv) > 1 else (9 if quick else 54)
    seed = int(sys.argv[2]) if len(sys.argv) > 2 else 20261001
    rng = np.random.default_rng([seed, int(os.environ.get('VERIF_SEED', '0'))])
    # each job: (component, request line | None, checker(out_line | None) -> (deviation, detail))
    jobs = []
    mism = []
    seen = {}

    def add(comp, line, check, cov=None, info=''):
        jobs.append((comp, line, check, info))
        if cov is not None:
            seen.setdefault(comp, set()).add(cov)

    def check_value(ref, scale=0.0):
        def chk(o):
            if not o.startswith('ok'):
                return np.inf, 'model: ' + o
            t = o.split(' ')
            got = bits2arr(t[3] if len(t) > 3 else '', (int(t[1]), int(t[2])))
            return rel_err(got, np.asarray(ref, dtype=float), scale), ''
        return chk

    def check_err(pyres):
        def chk(o):
            if pyres[0] != 'err':
                return np.inf, f'python accepted, model: {o}'
            if not o.startswith('err '):
                return np.inf, f'python raised {pyres[1]}, model: {o[:40]}'
            cls = o[4:].strip()
            good = pyres[1] in ERRCLASS.get(cls, ()) and ERRTEXT.get(cls, '\0') in pyres[2]
            return (0.0 if good else np.inf), f'python {pyres[1]}: {pyres[2][:60]} / model {cls}'
        return chk

    bkinds = ['pauli', 'custom2', 'ggm3', 'ggm2', 'fakepauli2', 'pauli', 'paulicustom', 'ggm3',
              'nearpauli']
    kinds = ['generic', 'generic', 'degenerate', 'diagonal']
    specials = ['lorentz', 'lorentz', 'white', 'zero']
    for i in range(n):
        bkind = bkinds[i % len(bkinds)]
        d = 3 if bkind == 'ggm3' else 2
        n_dt = int(rng.integers(1, 4))
        n_nops = int(rng.integers(1, 4 if d == 2 else 3))
        kind = kinds[i % len(kinds)]
        shape = 1 + i % 3 if i % 7 else int(rng.integers(1, 4))
        second = bool((i // 2) % 2)
        pars = (i % 5 == 3)
        ffc = (i % 4 == 1)
        build, ids, basis = make_pulse(rng, bkind, n_dt, n_nops, kind)
        nO = int(rng.integers(2, 6))
        if kind == 'diagonal':
            omega = np.sort(rng.choice(np.arange(-6, 7), nO, replace=False)).astype(float)
        else:
            omega = np.sort(rng.uniform(-6, 6, nO))
            if i % 5 == 0:
                omega[int(rng.integers(0, nO))] = 0.0
                omega = np.sort(omega)
        if i % 2 == 0:
            sel, idx = None, np.arange(n_nops)
        else:
            k = int(rng.integers(1, n_nops + 1))
            idx = rng.permutation(n_nops)[:k]
            sel = [ids[j] for j in idx]
        m = len(idx)
        S = make_spectrum(rng, shape, m, omega, specials[i % len(specials)])
        N = len(basis)
        cov = (bkind, shape, second, sel is not None, pars, ffc)
        info = (f'case {i}: basis={bkind} d={d} n_dt={n_dt} n_nops={n_nops} pulse={kind} spectrum_ndim={shape} '
                f'second_order={second} ids={sel} idx={list(map(int, idx))} pars={pars} ffcached={ffc} nO={nO}')
        q = build()
        G = numeric.calculate_decay_amplitudes(q, S, omega, sel, 'total', memory_parsimonious=pars)
        D = numeric.calculate_frequency_shifts(q, S, omega, sel) if second else None
        in_scale = amax(G, D)          # the cumulant function is linear in (G, D)
        # ---------------- error_transfer_matrix from the pulse --------------------------------
        p = build()
        if ffc:
            p.cache_filter_function(omega, which='generalized')
        cached = p.is_cached('filter_function_gen')
        with Capture() as cap:
            res = run_py(lambda: numeric.error_transfer_matrix(
                p, S, omega, sel, second, memory_parsimonious=pars,
                cache_intermediates=bool(i % 2), show_progressbar=False))
        assert res[0] == 'ok', res
        U = res[1]
        Karg = cap.args[-1]
        took_general = cap.traces_read > 0
        B = p.get_control_matrix(omega)
        Fgen = p.get_filter_function(omega, which='generalized') if cached else None
        F2 = p.get_filter_function(omega, order=2) if second else None
        idx_s = ','.join(str(int(j)) for j in idx)

        def etm_line(hp='1', hs='1', ho='1', sec=second):
            return ' '.join([
                'etmfn', hp, hs, ho, '1' if sec else '0', '1' if pars else '0', str(shape), str(d),
                str(N), str(n_nops), str(nO), str(m), btype_tok(basis), close_tok(basis),
                '1' if cached else '0', idx_s, carr2bits(np.array(basis)), carr2bits(B),
                carr2bits(Fgen) if Fgen is not None else '-',
                carr2bits(F2) if F2 is not None else '-', carr2bits(S), arr2bits(omega)])
        add('etmfn/pulse', etm_line(), check_value(Karg, in_scale), cov, info)
        # branch observed in the source vs the model's selector
        model_short = (d == 2 and btype_tok(basis) in ('Pauli', 'GGM') and close_tok(basis) == '1')
        add('branch', None, (lambda ms=model_short, tg=took_general, bk=bkind:
                             lambda o: ((0.0 if ms == (not tg) else 1.0), f'{bk}: model shortcut={ms}, '
                                        f'source read traces={tg}'))(), (bkind,))
        # ---------------- the two input modes of the real function ---------------------------
        Kfn = numeric.calculate_cumulant_function(build(), S, omega, sel, 'total', second,
                                                  memory_parsimonious=pars)
        with Capture() as cap2:
            U2 = numeric.error_transfer_matrix(cumulant_function=Kfn)
        add('etmfn/modes', None, (lambda a=U, b=U2: lambda o: (rel_err(b, a), ''))(), cov, info)
        add('etmgiven', ' '.join(['etmgiven', 'array', shape_tok(Kfn.shape[:-2]), str(N), str(N),
                                  arr2bits(Kfn)]), check_value(cap2.args[-1], amax(Kfn)), ('cumfn-shape', Kfn.ndim), info)
        # ---------------- rejections of error_transfer_matrix ---------------------------------
        if i % 4 == 0:
            for hp, hs, ho in [('0', '1', '1'), ('1', '0', '1'), ('1', '1', '0'), ('0', '0', '0')]:
                pyres = run_py(lambda: numeric.error_transfer_matrix(
                    build() if hp == '1' else None, S if hs == '1' else None,
                    omega if ho == '1' else None, sel, second))
                add('etmfn/reject', etm_line(hp, hs, ho), check_err(pyres), (hp, hs, ho),
                    info + f' pulse/spectrum/omega given={hp}{hs}{ho}')
        # ---------------- calculate_cumulant_function, which='total' --------------------------
        Gc = G + 1j*rng.standard_normal(G.shape)*(i % 3 == 0)      # complex user-supplied amplitudes
        variants = [
            # (spectrum, omega, decay_amplitudes, frequency_shifts, second)
            (S, omega, None, None, second),
            (None, None, Gc, D, second),
            (S, omega, Gc, None, second),
            (S, omega, None, D, second),
            (None, None, None, None, second),
            (None, None, G, None, True),
            (S, None, None, None, second),
            (None, omega, None, None, second),
            (S, None, G, None, True),
            (None, omega, G, None, True),
            (None, None, G, G[:1], True),
            (None, None, G, np.zeros((1,) + G.shape), True),
            (None, None, G, G[:1], False),
        ]
        for vi, (vs, vo, vg, vd, vsec) in enumerate(variants):
            if vi >= 4 and i % 3 != 0:
                continue
            qq = build()
            pyres = run_py(lambda: numeric.calculate_cumulant_function(
                qq, vs, vo, sel, 'total', vsec, vg, vd, memory_parsimonious=pars))
            vinfo = (info + f' | variant {vi}: spectrum={"given" if vs is not None else None} '
                     f'omega={"given" if vo is not None else None} '
                     f'decay_amplitudes={None if vg is None else (np.shape(vg), np.asarray(vg).dtype.name)} '
                     f'frequency_shifts={None if vd is None else np.shape(vd)} second_order={vsec}')
            gcalc = G if (vs is not None and vo is not None) else None
            dcalc = (D if D is not None else (numeric.calculate_frequency_shifts(build(), S, omega, sel)
                                             if vsec and vs is not None and vo is not None else None))
            line = ' '.join(['cumfn', 'total', '1' if vsec else '0', '1' if vs is not None else '0',
                             '1' if vo is not None else '0', str(d), str(N), btype_tok(basis),
                             close_tok(basis), carr2bits(np.array(basis))]
                            + arr_toks(vg, N) + arr_toks(vd, N) + arr_toks(gcalc, N)
                            + arr_toks(dcalc if vsec else None, N))
            if pyres[0] == 'ok':
                ref = pyres[1]
                vscale = amax(vg if vg is not None else gcalc, (vd if vd is not None else dcalc) if vsec else None)

                def chk(o, ref=ref, vscale=vscale):
                    if not o.startswith('ok'):
                        return np.inf, 'model: ' + o
                    t = o.split(' ')
                    sh = tuple(int(s) for s in t[1].split(',')) if t[1] != '-' else ()
                    if sh != ref.shape[:-2]:
                        return np.inf, f'shape {sh} vs {ref.shape}'
                    got = bits2arr(t[2] if len(t) > 2 else '', ref.shape)
                    return rel_err(got, ref, vscale), (f'input scale {vscale:.3e} max|model| {np.max(np.abs(got), initial=0.0):.3e} '
                                               f'max|package| {np.max(np.abs(ref), initial=0.0):.3e}')
                add('cumfn/total', line, chk, (bkind, shape, vsec, vi), vinfo)
            else:
                add('cumfn/reject', line, check_err(pyres), (vi,), vinfo)
        # ---------------- which='correlations' ---------------------------------------------
        if i % 3 == 1:
            p1, p2 = build(), build()
            pc = ff.concatenate([p1, p2], calc_pulse_correlation_FF=True, omega=omega,
                                which='generalized' if i % 2 else 'fidelity')
            for vsec in (False, True):
                pyres = run_py(lambda: numeric.calculate_cumulant_function(
                    pc, S, omega, sel, 'correlations', vsec, memory_parsimonious=pars))
                Gpc = numeric.calculate_decay_amplitudes(pc, S, omega, sel, 'correlations',
                                                         memory_parsimonious=pars)
                line = ' '.join(['cumfn', 'correlations', '1' if vsec else '0', '1', '1', str(d),
                                 str(N), btype_tok(pc.basis), close_tok(pc.basis),
                                 carr2bits(np.array(pc.basis))]
                                + ['-', '-', '-', '-'] + arr_toks(Gpc, N) + ['-', '-'])
                if pyres[0] == 'ok':
                    ref = pyres[1]

                    def chk(o, ref=ref, vscale=amax(Gpc)):
                        if not o.startswith('ok'):
                            return np.inf, 'model: ' + o
                        t = o.split(' ')
                        sh = tuple(int(s) for s in t[1].split(',')) if t[1] != '-' else ()
                        if sh != ref.shape[:-2]:
                            return np.inf, f'shape {sh} vs {ref.shape}'
                        return rel_err(bits2arr(t[2] if len(t) > 2 else '', ref.shape), ref, vscale), ''
                    add('cumfn/corr', line, chk, (bkind, shape), info + f' | correlations second_order={vsec}')
                else:
                    add('cumfn/reject', line, check_err(pyres), ('corr-second',),
                        info + f' | correlations second_order={vsec}')
    # ---------------- error_transfer_matrix(cumulant_function=…), special arguments ---------------
    specials_given = [
        ('array', np.zeros((0, 3, 3))), ('array', rng.standard_normal((4, 4))),
        ('array', rng.standard_normal((2, 3, 3))), ('array', rng.standard_normal((2, 2, 3, 3))),
        ('array', rng.standard_normal((2, 1, 2, 2, 4, 4))), ('array', np.zeros((2, 0, 0))),
        ('array', rng.standard_normal((2, 3, 4))), ('array', rng.standard_normal((3, 4))),
        ('array', rng.standard_normal((1, 1))), ('oned', rng.standard_normal(3)),
        ('scalar', np.array(0.75)), ('notarray', [[1.0, 0.0], [0.0, 1.0]]), ('notarray', 1.5),
        ('notarray', 'K'),
    ]
    for kindg, arg in specials_given:
        with Capture() as cap:
            pyres = run_py(lambda: numeric.error_transfer_matrix(cumulant_function=arg))
        if kindg == 'array':
            line = ' '.join(['etmgiven', 'array', shape_tok(arg.shape[:-2]), str(arg.shape[-2]),
                             str(arg.shape[-1]), arr2bits(arg)])
        elif kindg == 'scalar':
            line = ' '.join(['etmgiven', 'scalar', '-', '1', '1', arr2bits(arg)])
        else:
            line = ' '.join(['etmgiven', kindg, '-', '0', '0', '-'])
        if pyres[0] == 'ok':
            ref = np.asarray(cap.args[-1], dtype=float)
            ref = ref.reshape((1, 1)) if ref.ndim == 0 else ref
            add('etmgiven', line, check_value(ref, amax(arg)), (kindg, np.ndim(arg)),
                f'cumulant_function kind={kindg} shape={np.shape(arg)}')
        else:
            add('etmgiven/reject', line, check_err(pyres), (kindg, np.ndim(arg)),
                f'cumulant_function kind={kindg} shape={np.shape(arg)}')

    reqs = [ln for _, ln, _, _ in jobs if ln is not None]
    if os.environ.get('FFV_DUMP'):
        open(os.environ['FFV_DUMP'], 'w').write('\n'.join(reqs) + '\n')
        return 0
    outs = iter(driver(reqs))
    worst = {}
    count = {}
    for comp, ln, chk, info in jobs:
        dev, detail = chk(next(outs) if ln is not None else None)
        detail = (detail + ' | ' + info).strip(' |')
        worst[comp] = max(worst.get(comp, 0.0), dev)
        count[comp] = count.get(comp, 0) + 1
        if not dev <= TOL:
            mism.append((comp, dev, detail))
            if os.environ.get('FFV_DUMPBAD') and ln is not None:
                with open(os.environ['FFV_DUMPBAD'], 'a') as fh:
                    fh.write(ln + '\n')
    print(f'cases: {n} (seed {seed})')
    for comp in sorted(worst):
        print(f'{comp:18s} max rel deviation {worst[comp]:.3e}   [{count[comp]} checks, '
              f'{len(seen.get(comp, ()))} distinct configurations]')
    for comp, dev, detail in mism[:20]:
        print(f'MISMATCH {comp} {dev:.3e} {detail}')
    ok = not mism
    print('OK' if ok else f'FAILED ({len(mism)})')
    return 0 if ok else 1


if __name__ == '__main__':
    sys.exit(main())
