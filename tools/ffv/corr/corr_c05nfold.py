"""Correspondence of the Lean model `FFVerif/Model/ExtendAsm.lean` (driver component `extendasm`)
with the real package: the numerical assembly of the control matrix and of the fidelity filter
function in `pulse_sequence.extend` (Pauli path, `cache_filter_function=True`), with and without an
additional noise Hamiltonian, AND against the from-scratch control matrix / filter function of the
tensor-product pulse constructed directly.

Run:  /venv/bin/python corr_c05nfold.py [n_cases] [seed]
Env:  FFV_REPO (package), FFV_LEAN (Lean project), VERIF_SEED, FFV_TIER (quick = fewer cases).
Prints `<component>  max rel deviation <x>` per component (discrete: number of mismatches), exit 0
iff all <= 1e-9.
"""
import hashlib
import os
import struct
import subprocess
import sys
import warnings

sys.path.insert(0, os.environ.get('FFV_REPO', '/repo'))
import numpy as np  # noqa: E402

import filter_functions as ff  # noqa: E402
from filter_functions import util  # noqa: E402

LEAN = os.environ.get('FFV_LEAN', '/verif/lean')
TOL = 1e-9
QUICK = os.environ.get('FFV_TIER', '') == 'quick'


# ------------------------------------------------------------------------------------------------
# protocol
# ------------------------------------------------------------------------------------------------
def f2b(x):
    return str(struct.unpack('>Q', struct.pack('>d', float(x)))[0])


def b2f(s):
    return struct.unpack('>d', struct.pack('>Q', int(s)))[0]


def arr2bits(a, cplx=False):
    a = np.asarray(a)
    if cplx or np.iscomplexobj(a):
        flat = np.ascontiguousarray(a.astype(complex)).view(float).ravel()
    else:
        flat = a.astype(float).ravel()
    return ','.join(f2b(v) for v in flat) if flat.size else '-'


def bits2arr(s, shape, cplx=True):
    vals = np.array([b2f(t) for t in s.split(',') if t], dtype=float)
    if cplx:
        vals = vals.view(complex)
    return vals.reshape(shape)


def driver(reqs, timeout=3000):
    r = subprocess.run(['lake', 'env', 'lean', '--run', 'Driver.lean'], cwd=LEAN,
                       input='\n'.join(reqs) + '\n', capture_output=True, text=True, timeout=timeout)
    out = [ln for ln in r.stdout.splitlines() if ln.startswith('ok') or ln.startswith('err')]
    if r.returncode != 0 or len(out) != len(reqs):
        raise RuntimeError(f'driver failed: rc={r.returncode} {len(out)}/{len(reqs)} answers\n'
                           + r.stdout[-500:] + r.stderr[-2000:])
    return out


def nats(xs):
    xs = list(xs)
    return '_' if len(xs) == 0 else ','.join(str(int(x)) for x in xs)


def seed_rng(*keys):
    h = hashlib.sha256(repr(keys).encode()).digest()
    return np.random.Generator(np.random.PCG64(int.from_bytes(h[:8], 'big')))


# ------------------------------------------------------------------------------------------------
# pulses
# ------------------------------------------------------------------------------------------------
def herm(rng, d, traceless=False):
    a = rng.standard_normal((d, d)) + 1j * rng.standard_normal((d, d))
    a = a + a.conj().T
    if traceless:
        a = a - np.trace(a) / d * np.eye(d)
    return a


P0 = np.diag([1.0, 0.0]).astype(complex)
PAULI = util.paulis


def make_pulse(rng, nq, dt, tag, style):
    """a pulse on nq qubits (Pauli basis), n_dt = len(dt); `style` selects structured variants"""
    d = 2 ** nq
    n_dt = len(dt)
    n_c = int(rng.integers(1, 3))
    n_n = int(rng.integers(1, 3))
    if style == 'idle':
        c_opers = [herm(rng, d)]
        c_coeffs = [np.zeros(n_dt)]
    elif style == 'degenerate':
        # control proportional to the identity on one factor: degenerate spectrum
        op = util.tensor(*([PAULI[3]] + [PAULI[0]] * (nq - 1))) if nq > 1 else PAULI[0]
        c_opers = [np.asarray(op, dtype=complex)]
        c_coeffs = [rng.standard_normal(n_dt)]
    else:
        c_opers = [herm(rng, d) for _ in range(n_c)]
        c_coeffs = [rng.standard_normal(n_dt) * rng.choice([0.3, 1.0, 4.0]) for _ in range(n_c)]
    n_opers, n_coeffs = [], []
    for k in range(n_n):
        kind = int(rng.integers(0, 4))
        if kind == 0:
            op = util.tensor(*([P0] * nq)) if nq > 1 else P0      # |0><0|: non-traceless
        elif kind == 1:
            op = herm(rng, d)                                     # generic, with trace
        elif kind == 2:
            op = herm(rng, d, traceless=True)
        else:
            op = np.eye(d) + 0.3 * herm(rng, d)                   # large identity component
        n_opers.append(np.asarray(op, dtype=complex))
        co = rng.standard_normal(n_dt)
        if style == 'zero_sens' and k == 0:
            co = np.zeros(n_dt)
        n_coeffs.append(co)
    H_c = [[o, c, f'A{tag}{i}'] for i, (o, c) in enumerate(zip(c_opers, c_coeffs))]
    H_n = [[o, c, f'B{tag}{i}'] for i, (o, c) in enumerate(zip(n_opers, n_coeffs))]
    return ff.PulseSequence(H_c, H_n, dt, basis=ff.Basis.pauli(nq))


LAYOUTS = [
    # (N, list of qubit tuples/ints)
    (2, [0, 1]),
    (2, [1, 0]),
    (3, [0, 2]),                 # idle qubit in the middle
    (3, [(0, 1), 2]),
    (3, [2, (0, 1)]),
    (3, [(0, 2), 1]),            # non-neighbouring two-qubit pulse
    (3, [(1, 2), 0]),
    (3, [1, 0, 2]),
    (3, [(1, 2)]),               # single pulse, idle qubit in front
    (4, [(0, 1), (2, 3)]),
    (4, [(1, 3), (0, 2)]),       # interleaved two-qubit pulses
    (4, [(0, 3), 2]),            # idle qubit 1
    (4, [3, (0, 2), 1]),
    (4, [2, 0]),                 # two idle qubits
    (4, [(1, 2), 0, 3]),
    (4, [0, 1, 2, 3]),
]
LAYOUTS_ADD = [(2, [0, 1]), (2, [1, 0]), (3, [(0, 2), 1]), (3, [0, 2]), (3, [(1, 2)]), (3, [2, (0, 1)]),
               (3, [1, 2, 0])]
STYLES = ['generic', 'generic', 'idle', 'degenerate', 'zero_sens', 'identical']


def default_id(ident, qubits):
    if isinstance(qubits, tuple):
        return ident + '_' + ''.join(str(q) for q in qubits)
    return ident + '_' + str(qubits)


def build_case(rng, N, layout, with_add):
    n_dt = int(rng.integers(1, 4))
    dt = np.abs(rng.standard_normal(n_dt)) + 0.1
    style = STYLES[int(rng.integers(0, len(STYLES)))]
    pulses = []
    shared = {}
    for i, q in enumerate(layout):
        nq = len(q) if isinstance(q, tuple) else 1
        if style == 'identical' and nq in shared:
            p = shared[nq]
        else:
            p = make_pulse(rng, nq, dt, '', style if style != 'identical' else 'generic')
            shared[nq] = p
        pulses.append(p)
    # frequencies: zero, a resonance of the first pulse, generic
    n_o = int(rng.integers(2, 5)) if not QUICK else int(rng.integers(2, 4))
    omega = np.abs(rng.standard_normal(n_o)) * 3
    omega[0] = 0.0
    pulses[0].diagonalize()
    ev = pulses[0].eigvals[0]
    if n_o > 1 and len(ev) > 1:
        omega[1] = abs(ev[0] - ev[-1])
    omega = np.sort(omega)
    for p in pulses:
        p.cleanup('all')
        p.cache_filter_function(omega)
    mapping = [(p, q) for p, q in zip(pulses, layout)]
    kwargs = {}
    if with_add:
        d = 2 ** N
        n_add = int(rng.integers(1, 3))
        H_add = [[herm(rng, d) if k else np.eye(d) + herm(rng, d), rng.standard_normal(n_dt), f'Z{1 - k}add']
                 for k in range(n_add)]
        kwargs['additional_noise_Hamiltonian'] = H_add
    with warnings.catch_warnings():
        warnings.simplefilter('ignore')
        new = ff.extend(mapping, N=N, cache_filter_function=True, omega=omega, **kwargs)
    # order of the pulses inside extend: multi-qubit first, then single-qubit
    multi = [(p, q) for p, q in mapping if isinstance(q, tuple)]
    single = [(p, q) for p, q in mapping if not isinstance(q, tuple)]
    ordered = multi + single
    ids = []
    for p, q in ordered:
        ids.extend(default_id(i, q) for i in p.n_oper_identifiers)
    add_ids = []
    if with_add:
        add_ids = sorted(h[2] for h in kwargs['additional_noise_Hamiltonian'])
        ids.extend(add_ids)
    sort_idx = np.argsort(ids)
    id_mismatch = int(not np.array_equal(np.asarray(ids)[sort_idx], new.n_oper_identifiers))
    idxs = ';'.join(nats(q if isinstance(q, tuple) else (q,)) for _, q in ordered)
    nAs = nats(len(p.n_opers) for p, _ in ordered)
    cms = np.concatenate([p.get_control_matrix(omega).ravel() for p, _ in ordered])
    toks = ['extendasm', 'cmadd' if with_add else 'cm', str(N), str(len(omega)), idxs, nAs,
            arr2bits(cms, cplx=True), nats(sort_idx)]
    if with_add:
        inds = util.get_indices_from_identifiers(new.n_oper_identifiers, add_ids)
        toks += [str(n_dt), str(len(add_ids)), arr2bits(new.eigvals), arr2bits(new.eigvecs, cplx=True),
                 arr2bits(new.propagators[:-1], cplx=True), arr2bits(omega),
                 arr2bits(new.n_opers[inds], cplx=True), arr2bits(new.n_coeffs[inds]),
                 arr2bits(new.dt), arr2bits(new.t[:-1])]
    # from scratch on the directly constructed tensor-product pulse
    fresh = ff.PulseSequence(
        [[o, c, i] for o, c, i in zip(new.c_opers, new.c_coeffs, new.c_oper_identifiers)],
        [[o, c, i] for o, c, i in zip(new.n_opers, new.n_coeffs, new.n_oper_identifiers)],
        new.dt, basis=ff.Basis.pauli(N))
    fresh.cache_filter_function(omega)
    assert np.array_equal(fresh.n_oper_identifiers, new.n_oper_identifiers)
    ref = dict(cm=np.array(new._control_matrix), ff=np.array(new._filter_function),
               cm_s=np.array(fresh._control_matrix), ff_s=np.array(fresh._filter_function))
    return ' '.join(toks), ref, id_mismatch, dict(N=N, layout=layout, style=style, n_dt=n_dt,
                                                  omega=omega.tolist(), add=with_add)


def rel(got, ref):
    scale = np.max(np.abs(ref)) if ref.size else 0.0
    if not scale > 0:
        scale = 1.0
    if got.shape != ref.shape or not np.all(np.isfinite(got)):
        return np.inf
    return float(np.max(np.abs(got - ref)) / scale) if ref.size else 0.0


def main():
    n_cases = int(sys.argv[1]) if len(sys.argv) > 1 else (10 if QUICK else 48)
    seed = int(sys.argv[2]) if len(sys.argv) > 2 else int(os.environ.get('VERIF_SEED', '0'))
    n_add = max(3, n_cases // 3)
    reqs, refs, info, idm = [], [], [], []
    for c in range(n_cases):
        rng = seed_rng('c05nfold', seed, c)
        lays = [l for l in LAYOUTS if not (QUICK and l[0] == 4 and len(l[1]) > 2)]
        N, layout = lays[c % len(lays)] if c < len(lays) else lays[int(rng.integers(0, len(lays)))]
        r, ref, m, inf = build_case(rng, N, layout, False)
        reqs.append(r); refs.append(ref); info.append(inf); idm.append(m)
    for c in range(n_add):
        rng = seed_rng('c05nfold-add', seed, c)
        N, layout = LAYOUTS_ADD[c % len(LAYOUTS_ADD)]
        r, ref, m, inf = build_case(rng, N, layout, True)
        reqs.append(r); refs.append(ref); info.append(inf); idm.append(m)
    outs = driver(reqs)
    dev = {k: 0.0 for k in ('extendasm_cm', 'extendasm_ff', 'extendasm_cm_add', 'extendasm_ff_add',
                            'extendasm_cm_scratch', 'extendasm_ff_scratch')}
    mism = []
    for o, ref, inf in zip(outs, refs, info):
        if not o.startswith('ok '):
            for k in dev:
                dev[k] = np.inf
            mism.append(('extendasm_cm', f'driver answered {o[:60]} for {inf}'))
            continue
        a, b = o[3:].split(' ')
        cm = bits2arr(a, ref['cm'].shape)
        F = bits2arr(b, ref['ff'].shape)
        sfx = '_add' if inf['add'] else ''
        for comp, got, want in (('extendasm_cm' + sfx, cm, ref['cm']), ('extendasm_ff' + sfx, F, ref['ff']),
                                ('extendasm_cm_scratch', cm, ref['cm_s']),
                                ('extendasm_ff_scratch', F, ref['ff_s'])):
            e = rel(got, want)
            dev[comp] = max(dev[comp], e)
            if not e <= TOL:
                mism.append((comp, f'dev {e:.3e} for {inf}'))
    for k, v in dev.items():
        print(f'{k}  max rel deviation {v:.3e}')
    print(f'extendasm_ids  max rel deviation {float(sum(idm)):.3e}')
    for comp, what in mism:
        print(f'MISMATCH {comp} {what}')
    if sum(idm):
        print(f'MISMATCH extendasm_ids {sum(idm)} cases with a different identifier order')
    ok = all(v <= TOL for v in dev.values()) and sum(idm) == 0
    print(f'cases: {n_cases} + {n_add} with additional noise Hamiltonian; ' + ('OK' if ok else 'FAIL'))
    sys.exit(0 if ok else 1)


if __name__ == '__main__':
    main()
