"""Correspondence of the `extend` / `remap` part of the Lean model `FFVerif/Model/Validate.lean`
(driver requests `v_extend` in the NEW four-part pulse format with control identifiers and the
identifier mapping as a dict, `v_remap` with identifiers and mapping) with the real package after
the repair of F48 (duplicate identifiers after mapping -> ValueError): accept / exception class.

Cases: seeded random ones plus structured ones — injective mappings, mappings colliding in the
control identifiers, in the noise identifiers, with the default mapping of another entry, with the
identifiers of the additional noise Hamiltonian, default mappings only, mappings with missing keys
(ValueError since the repair of F50, a KeyError before), empty dicts, pulses whose own identifier
arrays were overwritten with repetitions
(rejected by the inner `remap` for permuted qubits), and the same crossed with the earlier / later
checks (frequencies, option conflict, malformed additional Hamiltonian, early return).

Environment: FFV_REPO (default /repo), FFV_LEAN (default /verif/lean), VERIF_SEED, FFV_TIER
('quick': fewer cases).  Run:  /venv/bin/python corr_c20val.py
Prints `<component>  max rel deviation <number of mismatches as float>` per component and
`MISMATCH <component> …` lines; exit 0 iff there is no mismatch.
"""
import os
import random
import subprocess
import sys
import warnings

sys.path.insert(0, os.environ.get('FFV_REPO', '/repo'))
import numpy as np  # noqa: E402

import filter_functions as ff  # noqa: E402

LEAN = os.environ.get('FFV_LEAN', '/verif/lean')
SEED = int(os.environ.get('VERIF_SEED', '0') or 0)
QUICK = os.environ.get('FFV_TIER', '') == 'quick'
warnings.simplefilter('ignore')


def driver(reqs):
    r = subprocess.run(['lake', 'env', 'lean', '--run', 'Driver.lean'], cwd=LEAN,
                       input='\n'.join(reqs) + '\n', capture_output=True, text=True, timeout=3000)
    out = [ln for ln in r.stdout.splitlines() if ln.startswith('ok') or ln.startswith('err')]
    if r.returncode != 0 or len(out) != len(reqs):
        raise RuntimeError(f'driver failed: rc={r.returncode} {len(out)}/{len(reqs)} answers\n'
                           + r.stdout[-500:] + r.stderr[-2000:])
    return out


def cls(f):
    try:
        return 'ok ' + f()
    except Exception as e:  # noqa
        return 'err ' + type(e).__name__


# ------------------------------------------------------------------------------------------------
# encodings (see the header comment of the driver section of Model/Validate.lean)
# ------------------------------------------------------------------------------------------------
def strs(xs):
    xs = list(xs)
    return ','.join(str(x) for x in xs) if xs else '_'


def dict_tok(m):
    if m is None:
        return '-'
    if not m:
        return '_'
    return ','.join(f'{k}>{v}' for k, v in m.items())


# (array, bytes id, value id) as in tools/ffv/props/c20.py
# (`util.all_array_equal` compares values since its repair: equal arrays get equal ids)
DTS = [(np.array([1., 1.]), 0, 0), (np.array([1, 1]), 0, 0), (np.array([1., 2.]), 2, 2),
       (np.array([1.]), 3, 3)]
OMS = [(np.array([1., 2.]), 0, 0), (np.array([1, 2]), 0, 0), (np.array([1., 3.]), 2, 2)]
CPOOL = ['X', 'Y', 'A0']
NPOOL = ['Z', 'X', 'B0', 'Y']


def mkpulse(d, dt, cids, nids, om=None, cm=False, own_c=None, own_n=None):
    """a pulse of dimension d with the given identifiers; `own_c` / `own_n`: identifier arrays
    written over the attributes afterwards (repetitions that no constructor would accept)"""
    Hc = [[np.diag(np.arange(d) + 1. + i), [1.]*len(dt), c] for i, c in enumerate(cids)]
    Hn = [[np.diag(np.arange(d) + 2. + i)[::-1].copy(), [1.]*len(dt), n] for i, n in enumerate(nids)]
    basis = ff.Basis.pauli(int(round(np.log2(d)))) if d in (2, 4, 8) else None
    p = ff.PulseSequence(Hc, Hn, dt, basis=basis)
    if om is not None:
        if cm:
            p.cache_filter_function(om)
        else:
            p.omega = om
    if own_c is not None:
        p.c_oper_identifiers = np.array(own_c)
    if own_n is not None:
        p.n_oper_identifiers = np.array(own_n)
    return p


def pulse_flags(p, d, dpq, qs, form, dt, om, cm):
    logN = int(round(np.log(d)/np.log(dpq)))
    pauli = p.basis.btype == 'Pauli'
    ko = p.is_cached('total_phases') or p.is_cached('filter_function') or (
        p.is_cached('control_matrix') and pauli)
    return '%d,%d,%s,%s,%d,%d,%d,%d,%s,%s,%d,%d' % (
        d, logN, '+'.join(map(str, qs)) or '_', form, dt[1], dt[2], len(dt[0]),
        int(cm and om is not None), om[1] if om else '-', om[2] if om else '-', int(ko), int(pauli))


def pulse_tok(p, flags, mp):
    return '%s/%s/%s/%s' % (flags, strs(p.c_oper_identifiers), strs(p.n_oper_identifiers), dict_tok(mp))


def default_name(s, qs):
    return s + '_' + ''.join(str(q) for q in qs)


# ------------------------------------------------------------------------------------------------
# extend
# ------------------------------------------------------------------------------------------------
def extend_case(rng, kind):
    """kind: which identifier scenario; the remaining arguments are benign most of the time"""
    dpq = 2
    benign = rng.random() < 0.75
    npl = rng.choice([2, 2, 2, 3]) if kind != 'shortcut' else 1
    free = [0, 1, 2, 3, 4]
    rng.shuffle(free)
    dtc = DTS[0] if benign else rng.choice(DTS)
    entries = []          # (pulse, qubit argument, mapping, qs, form, flags)
    used_q = 0
    for i in range(npl):
        nq = rng.choice([1, 1, 1, 2]) if i else rng.choice([1, 2, 2])
        if used_q + nq > len(free):
            nq = 1
        qs = free[used_q:used_q + nq]
        used_q += nq
        if kind == 'shortcut':
            qs = list(range(nq)) if rng.random() < 0.8 else list(range(nq))[::-1]
        if not benign and rng.random() < 0.15:
            qs = [rng.choice([0, 1, 2])] * nq          # clash candidates
        if nq > 1 and rng.random() < 0.5:
            qs = sorted(qs)
        form = rng.choice(['t', 't', 'l', 'i']) if nq == 1 else rng.choice(['t', 't', 'l'])
        k = nq if (benign or rng.random() < 0.85) else rng.choice([1, 2])
        d = dpq**k
        dt = dtc if (benign or rng.random() < 0.85) else rng.choice(DTS)
        cids = rng.sample(CPOOL, rng.choice([1, 1, 2]))
        nids = rng.sample(NPOOL, rng.choice([1, 2, 2, 3]))
        if rng.random() < 0.5:
            om, cm = None, False
        else:
            om = OMS[0] if rng.random() < 0.8 else rng.choice(OMS)
            cm = rng.random() < 0.7
        own_c = own_n = None
        if kind == 'own' and i == 0:
            if rng.random() < 0.5 and len(nids) > 1:
                own_n = [nids[0]] * 2 + nids[2:]
            elif len(cids) > 1:
                own_c = [cids[0]] * len(cids)
            else:
                nids = nids if len(nids) > 1 else nids + ['Q']
                own_n = [nids[0]] * 2 + nids[2:]
        p = mkpulse(d, dt[0], cids, nids, om[0] if om else None, cm, own_c, own_n)
        q = qs[0] if form == 'i' else (tuple(qs) if form == 't' else list(qs))
        flags = pulse_flags(p, d, dpq, qs, form, dt, om, cm)
        entries.append([p, q, None, qs, form, flags])

    def keys(p):
        return list(dict.fromkeys(list(p.c_oper_identifiers) + list(p.n_oper_identifiers)))

    def injective(i, p):
        return {k: f'{k}.{i}' for k in keys(p)}

    add_id = None
    if kind == 'default':
        pass
    elif kind in ('injective', 'own', 'shortcut'):
        for i, e in enumerate(entries):
            if rng.random() < 0.7:
                e[2] = injective(i, e[0])
        if kind == 'shortcut' and rng.random() < 0.5:
            e = entries[0]
            e[2] = {k: 'same' for k in keys(e[0])} if rng.random() < 0.5 else {}
    elif kind in ('collide_c', 'collide_n'):
        a, b = rng.sample(range(npl), 2) if rng.random() < 0.7 else (0, 0)
        for i, e in enumerate(entries):
            e[2] = injective(i, e[0])
        attr = 'c_oper_identifiers' if kind == 'collide_c' else 'n_oper_identifiers'
        ia, ib = list(getattr(entries[a][0], attr)), list(getattr(entries[b][0], attr))
        ka, kb = rng.choice(ia), rng.choice(ib)
        if a == b and ka == kb and len(ia) > 1:
            kb = [k for k in ia if k != ka][0]
        entries[a][2][ka] = 'dup'
        entries[b][2][kb] = 'dup'
        # (a == b and one identifier only: no collision — still a valid comparison)
    elif kind == 'collide_default':
        # a given mapping producing the default name of another entry
        a, b = rng.sample(range(npl), 2)
        entries[a][2] = injective(a, entries[a][0])
        pb, qb = entries[b][0], entries[b][3]
        attr = rng.choice(['c_oper_identifiers', 'n_oper_identifiers'])
        tgt = default_name(rng.choice(list(getattr(pb, attr))), sorted(qb) if len(qb) > 1 else qb)
        entries[a][2][rng.choice(list(getattr(entries[a][0], attr)))] = tgt
    elif kind == 'collide_add':
        a = rng.randrange(npl)
        if rng.random() < 0.5:
            entries[a][2] = injective(a, entries[a][0])
            add_id = rng.choice(list(entries[a][2][k] for k in entries[a][0].n_oper_identifiers)
                                if rng.random() < 0.7 else
                                list(entries[a][2][k] for k in entries[a][0].c_oper_identifiers))
        else:
            qa = entries[a][3]
            add_id = default_name(rng.choice(list(entries[a][0].n_oper_identifiers)),
                                  sorted(qa) if len(qa) > 1 else qa)
    elif kind == 'missing':
        for i, e in enumerate(entries):
            if rng.random() < 0.6:
                e[2] = injective(i, e[0])
        a = rng.randrange(npl)
        m = injective(a, entries[a][0])
        r = rng.random()
        if r < 0.2:
            m = {}
        elif r < 0.6:
            del m[rng.choice(list(entries[a][0].c_oper_identifiers))]
        else:
            del m[rng.choice(list(entries[a][0].n_oper_identifiers))]
        if rng.random() < 0.3:            # together with a collision elsewhere
            for k in m:
                m[k] = 'dup'
        entries[a][2] = m
    elif kind == 'random':
        pool = ['a', 'b', 'c', 'd', 'e', 'f', 'Z_0', 'X_1']
        for i, e in enumerate(entries):
            if rng.random() < 0.7:
                ks = keys(e[0])
                if rng.random() < 0.2:
                    ks = ks[:-1]
                e[2] = {k: rng.choice(pool) for k in ks}
    else:
        raise ValueError(kind)

    mapping = [(e[0], e[1]) if e[2] is None else (e[0], e[1], e[2]) for e in entries]
    toks = [pulse_tok(e[0], e[5], e[2]) for e in entries]
    allq = [q for e in entries for q in e[3]]
    N = None if rng.random() < 0.6 else rng.choice([max(allq) + 1, max(allq) + 2] + ([] if benign else [2]))
    if kind == 'shortcut':
        N = len(entries[0][3]) if rng.random() < 0.8 else None
    Nn = N if N is not None else max(allq) + 1
    add, addt = None, '-'
    if add_id is not None or rng.random() < (0.15 if benign else 0.4):
        dd = 2**min(Nn, 5) if (benign or rng.random() < 0.8) else 2
        nd = len(dtc[0]) if (benign or rng.random() < 0.85) else 3
        idn = add_id if add_id is not None else rng.choice(['ZZ', 'Z_0', 'Z.0', 'dup', None])
        add = [[np.eye(dd), [1.]*nd] + ([idn] if idn else [])]
        addt = '%d:a%dx%d:s%d:%s' % (3 if idn else 2, dd, dd, nd, '=' + idn if idn else '-')
        if not benign and rng.random() < 0.2:
            add, addt = 5, '!'
    cd = None if benign else rng.choice([None, None, True, False])
    cf = rng.choice([None, False]) if benign else rng.choice([None, None, True, False])
    omg = rng.random() < 0.3
    tb = lambda b: '-' if b is None else str(int(b))  # noqa
    req = 'v_extend %s %s %d %s %s %s %d' % ('|'.join(toks), '-' if N is None else N, dpq, addt,
                                             tb(cd), tb(cf), int(omg))

    def f():
        r = ff.extend(mapping, N=N, d_per_qubit=dpq, additional_noise_Hamiltonian=add,
                      cache_diagonalization=cd, cache_filter_function=cf,
                      omega=OMS[0][0] if omg else None)
        return str(int(round(np.log2(r.d))))
    return req, f


def structured_extend():
    """hand-written cases (the `example`s of Props/C20 that can be run)"""
    I, X, Y, Z = ff.util.paulis
    Xp = ff.PulseSequence([[X, [1.], 'X']], [[X, [1.], 'X'], [Z, [1.], 'Z']], [1.], ff.Basis.pauli(1))
    Yp = ff.PulseSequence([[Y, [1.], 'Y']], [[Y, [1.], 'Y'], [Z, [1.], 'Z']], [1.], ff.Basis.pauli(1))
    dt = DTS[3]

    def fl(p, qs, form):
        return pulse_flags(p, p.d, 2, qs, form, dt, None, False)
    out = []

    def case(entries, N=None, add=None, addt='-', cd=None, cf=None):
        toks = [pulse_tok(p, fl(p, qs, form), m) for p, q, m, qs, form in entries]
        mapping = [(p, q) if m is None else (p, q, m) for p, q, m, qs, form in entries]
        tb = lambda b: '-' if b is None else str(int(b))  # noqa
        req = 'v_extend %s %s 2 %s %s %s 0' % ('|'.join(toks), '-' if N is None else N, addt, tb(cd),
                                               tb(cf))
        out.append((req, lambda: str(int(round(np.log2(ff.extend(
            mapping, N=N, additional_noise_Hamiltonian=add, cache_diagonalization=cd,
            cache_filter_function=cf).d))))))

    e = lambda p, q, m=None: (p, q, m, [q], 'i')  # noqa
    case([e(Xp, 1, {'X': 'IX', 'Z': 'IZ'}), e(Yp, 0, {'Y': 'YI', 'Z': 'ZI'})])     # docstring
    case([e(Xp, 0), e(Xp, 1)])                                                     # defaults
    case([e(Xp, 0, {'X': 'a', 'Z': 'b'}), e(Xp, 1, {'X': 'a', 'Z': 'c'})])         # control clash
    case([e(Xp, 0, {'X': 'a', 'Z': 'a'}), e(Xp, 1)])                               # noise clash
    case([e(Xp, 0, {'X': 'a', 'Z': 'b'}), e(Xp, 1, {'X': 'c', 'Z': 'b'})])
    case([e(Xp, 0, {'X': 'X_1', 'Z': 'b'}), e(Xp, 1)])                             # vs default
    case([e(Xp, 0, {'Z': 'a'}), e(Xp, 1)])                                         # missing key
    case([e(Xp, 0, {}), e(Xp, 1)])
    case([e(Xp, 0, {'X': 'a', 'Z': 'a'}), e(Xp, 1, {'X': 'b'})])                   # missing key first
    case([e(Xp, 0, {'Z': 'a'}), e(Xp, 1)], cf=True)                                # omega first
    case([e(Xp, 0, {'Z': 'a'}), e(Xp, 1)], add=5, addt='!')                        # missing key first
    case([e(Xp, 0, {'X': 'a', 'Z': 'a'}), e(Xp, 1)], add=5, addt='!')              # dup first
    case([e(Xp, 0, {'X': 'a', 'Z': 'a'}), e(Xp, 1)], add=[[np.eye(4), [1.], 'ZZ']],
         addt='3:a4x4:s1:=ZZ', cd=False)                                           # conflict first
    case([e(Xp, 0, {'X': 'a', 'Z': 'ZZ'}), e(Xp, 1)], add=[[np.eye(4), [1.], 'ZZ']],
         addt='3:a4x4:s1:=ZZ')                                                     # vs additional
    case([e(Xp, 0, {'X': 'ZZ', 'Z': 'b'}), e(Xp, 1)], add=[[np.eye(4), [1.], 'ZZ']],
         addt='3:a4x4:s1:=ZZ')                                 # control name = additional: fine
    case([e(Xp, 0, {'Z': 'a'})])                                                   # early return
    case([e(Xp, 0, {'Z': 'a'})], N=2)
    # own identifiers overwritten
    XX = ff.extend([(Xp, 0), (Xp, 1)])
    XX.n_oper_identifiers = np.array(['a', 'a', 'b', 'c'])
    for q, form in (((1, 0), 't'), ((0, 1), 't'), ([0, 1], 'l')):
        case([(XX, q, None, list(q), form)], N=3)
        case([(XX, q, {'a': 'A', 'b': 'B', 'c': 'C', 'X_0': 'x0', 'X_1': 'x1'}, list(q), form)], N=3)
        case([(XX, q, None, list(q), form)], N=2)                                  # early return?
    return out


# ------------------------------------------------------------------------------------------------
# remap
# ------------------------------------------------------------------------------------------------
def remap_case(rng, kind):
    n = rng.choice([2, 2, 3])
    d = 2**n
    dpq = 2 if rng.random() < 0.9 else rng.choice([3, 4])
    cids = [f'c{i}' for i in range(rng.choice([1, 2, 3]))]
    nids = rng.sample(['c0', 'n0', 'n1', 'n2'], rng.choice([1, 2, 3]))
    own_c = own_n = None
    if kind == 'own':
        if rng.random() < 0.5 and len(cids) > 1:
            own_c = [cids[0]] * len(cids)
        else:
            nids = nids if len(nids) > 1 else nids + ['q']
            own_n = [nids[0]] * 2 + nids[2:]
    om = None
    if rng.random() < 0.3:
        om = OMS[0][0]
    p = mkpulse(d, DTS[0][0], cids, nids, om, rng.random() < 0.5, own_c, own_n)
    order = list(range(n))
    rng.shuffle(order)
    r = rng.random()
    if r < 0.08:
        order[rng.randrange(n)] = order[0]
    elif r < 0.12:
        order = order[:-1]
    elif r < 0.16:
        order[rng.randrange(n)] = -1
    elif r < 0.2:
        order.append(n)
    ks = list(dict.fromkeys(list(p.c_oper_identifiers) + list(p.n_oper_identifiers)))
    m = {k: k + "'" for k in ks}
    if kind in ('none', 'own'):
        m = None if (kind == 'none' or rng.random() < 0.5) else m
    elif kind == 'injective':
        vals = [k + "'" for k in ks]
        rng.shuffle(vals)
        m = dict(zip(ks, vals))
    elif kind == 'collide_c':
        if len(cids) > 1:
            a, b = rng.sample(cids, 2)
            m[a] = m[b] = 'dup'
        else:
            m[cids[0]] = rng.choice([m[k] for k in nids if k != cids[0]] or ['dup'])  # c = n name: fine
    elif kind == 'collide_n':
        if len(nids) > 1:
            a, b = rng.sample(nids, 2)
            m[a] = m[b] = 'dup'
    elif kind == 'missing':
        if rng.random() < 0.2:
            m = {}
        else:
            del m[rng.choice(ks)]
            if rng.random() < 0.3:
                for k in m:
                    m[k] = 'dup'
    elif kind == 'random':
        m = {k: rng.choice(['a', 'b', 'c', 'd', 'e']) for k in (ks if rng.random() < 0.8 else ks[:-1])}
    logN = int(round(np.log(d)/np.log(dpq)))
    req = 'v_remap %d %d %d %s %s %s %s' % (d, logN, dpq, strs(order), strs(p.c_oper_identifiers),
                                            strs(p.n_oper_identifiers), dict_tok(m))

    def f():
        ff.remap(p, order, d_per_qubit=dpq, oper_identifier_mapping=m)
        return ''
    return req, f


def structured_remap():
    I, X, Y, Z = ff.util.paulis
    XY, YX = ff.util.tensor(X, Y), ff.util.tensor(Y, X)
    p = ff.PulseSequence([[XY, [np.pi/2], 'XY']], [[YX, [1], 'YX']], [1], ff.Basis.pauli(2))
    out = []
    for order, m in [((1, 0), {'XY': 'YX', 'YX': 'XY'}), ((1, 0), None), ((1, 0), {'XY': 'a', 'YX': 'a'}),
                     ((1, 0), {'XY': 'a'}), ((1, 0), {}), ((1, 1), {'XY': 'a'}), ((0,), None)]:
        req = 'v_remap 4 2 2 %s XY YX %s' % (strs(order), dict_tok(m))
        out.append((req, lambda order=order, m=m: (ff.remap(p, order, oper_identifier_mapping=m), '')[1]))
    # old request formats must still be understood
    out.append(('v_remap 4 2 2 1,0', lambda: (ff.remap(p, (1, 0)), '')[1]))
    return out


# ------------------------------------------------------------------------------------------------
def run(component, cases):
    reqs = [c[0] for c in cases]
    ans = driver(reqs)
    bad = 0
    stats = {}
    for (req, f), a in zip(cases, ans):
        real = cls(f).strip()
        stats[real] = stats.get(real, 0) + 1
        if real != a.strip():
            bad += 1
            print(f'MISMATCH {component} real={real!r} model={a!r} request={req}')
    print(f'{component}  max rel deviation {float(bad)}   # {len(cases)} cases: '
          + ', '.join(f'{k}: {v}' for k, v in sorted(stats.items())))
    return bad


def main():
    rng = random.Random(SEED * 7919 + 20)
    n_ext, n_rem = (120, 80) if QUICK else (420, 260)
    ekinds = ['default', 'injective', 'collide_c', 'collide_n', 'collide_default', 'collide_add',
              'missing', 'random', 'own', 'shortcut']
    eweights = [2, 3, 3, 3, 2, 2, 3, 3, 1.5, 1]
    rkinds = ['none', 'injective', 'collide_c', 'collide_n', 'missing', 'random', 'own']
    ext, rem = structured_extend(), structured_remap()
    kinds_seen = {}
    while len(ext) < n_ext:
        k = rng.choices(ekinds, eweights)[0]
        try:
            ext.append(extend_case(rng, k))
            kinds_seen[k] = kinds_seen.get(k, 0) + 1
        except (ValueError, TypeError, IndexError):   # generator built an invalid constituent pulse
            continue
    while len(rem) < n_rem:
        rem.append(remap_case(rng, rng.choice(rkinds)))
    bad = run('validate_extend_ids', ext)
    bad += run('validate_remap_ids', rem)
    # the old three-part `v_extend` pulse format is still understood (noise identifiers only)
    old = ['v_extend 2,1,0,i,0,0,1,0,-,-,1,1/Z/-|2,1,1,i,0,0,1,0,-,-,1,1/Z/- - 2 - - - 0',
           'v_extend 2,1,0,i,0,0,1,0,-,-,1,1/Z,Y/Z_a,Y_a|2,1,1,i,0,0,1,0,-,-,1,1/Z/Z_b - 2 - - - 0',
           'v_extend 2,1,0,i,0,0,1,0,-,-,1,1/Z/Z_a|2,1,1,i,0,0,1,0,-,-,1,1/Z/Z_a - 2 - - - 0']
    ans = driver(old)
    want = ['ok 2', 'ok 2', 'err ValueError']
    nb = sum(a.strip() != w for a, w in zip(ans, want))
    for a, w, r in zip(ans, want, old):
        if a.strip() != w:
            print(f'MISMATCH validate_extend_oldformat expected={w!r} model={a!r} request={r}')
    print(f'validate_extend_oldformat  max rel deviation {float(nb)}')
    bad += nb
    print('# extend scenarios:', ', '.join(f'{k}: {v}' for k, v in sorted(kinds_seen.items())))
    sys.exit(0 if bad == 0 else 1)


if __name__ == '__main__':
    main()
