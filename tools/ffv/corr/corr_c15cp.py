"""Correspondence run for the C15CP model components (FFVerif/Model/SuperopKraus.lean).

Runs the REAL package and the Lean driver on the same seeded random + structured inputs and prints
the maximal relative deviation per component; exit 0 iff all <= 1e-9 and all discrete outputs (the
verdicts of liouville_is_CP) are as predicted.

Components
  liouville_kraus         S = sum_m w_m liouville_representation(A_m, C)
  choi(kraus)             liouville_to_choi(S, C) of such S (existing `choi` component), and its
                          closed form sum_m w_m |A_m>><<A_m|
  verdict                 liouville_is_CP(S, C): True for w >= 0, False for a negative weight on an
                          operator outside the span of the others, True for a negative weight that
                          is compensated inside the span
  liouville_repr          liouville_representation on the closed-form (ggm_expand) and the generic
                          path; d = 13 goes through the real branch of the package
  liouville_stack         liouville_representation of a stack of unitaries
  concat_total_liouville  total_propagator_liouville cached by ff.concatenate
  lindblad (no driver)    specification facts behind `cp_exp_lindblad` on the real package:
                          tr(C_i L(C_j)) = liouGen(K) + liouKraus(gamma, A); liouville_is_CP of
                          expm(t L) True for t >= 0, False for a negative rate
"""
import os
import struct
import subprocess
import sys

sys.path.insert(0, os.environ.get('FFV_REPO', '/repo'))
import numpy as np  # noqa: E402

import filter_functions as ff  # noqa: E402
from filter_functions import basis as _b  # noqa: E402
from filter_functions import superoperator as so  # noqa: E402

LEAN = os.environ.get('FFV_LEAN', '/verif/lean')


def f2b(x):
    return str(struct.unpack('>Q', struct.pack('>d', float(x)))[0])


def b2f(s):
    return struct.unpack('>d', struct.pack('>Q', int(s)))[0]


def arr2bits(a):
    a = np.asarray(a)
    if np.iscomplexobj(a):
        flat = np.ascontiguousarray(a).astype(complex).view(float).ravel()
    else:
        flat = a.astype(float).ravel()
    return ','.join(f2b(v) for v in flat) if flat.size else '-'


def bits2arr(s, shape=None, cplx=False):
    vals = np.array([b2f(t) for t in s.split(',') if t], dtype=float)
    if cplx:
        vals = vals.view(complex)
    if shape is not None:
        vals = vals.reshape(shape)
    return vals


def driver(lines):
    inp = '\n'.join(lines) + '\n'
    p = subprocess.run(['lake', 'env', 'lean', '--run', 'Driver.lean'], cwd=LEAN, input=inp,
                       capture_output=True, text=True, timeout=3600)
    if p.returncode != 0:
        raise RuntimeError('lean driver failed: ' + (p.stderr or p.stdout)[-2000:])
    res = [ln for ln in p.stdout.split('\n') if ln.startswith('ok') or ln.startswith('err')]
    if len(res) != len(lines):
        raise RuntimeError(f'driver answered {len(res)} lines for {len(lines)} requests')
    return res


def cbits(a):
    return arr2bits(np.asarray(a).astype(complex))


def rand_unitary(rng, d):
    a = rng.standard_normal((d, d)) + 1j*rng.standard_normal((d, d))
    q, r = np.linalg.qr(a)
    return q*(np.diag(r)/np.abs(np.diag(r)))


def rand_orthogonal(rng, n):
    q, r = np.linalg.qr(rng.standard_normal((n, n)))
    return q*np.sign(np.diag(r))


def rand_cplx(rng, d):
    return rng.standard_normal((d, d)) + 1j*rng.standard_normal((d, d))


def rotated_basis(rng, d):
    g = np.array(ff.Basis.ggm(d))
    return ff.Basis(np.einsum('ij,jkl->ikl', rand_orthogonal(rng, d*d), g), traceless=False)


def bases(rng, d):
    out = [ff.Basis.ggm(d)]
    if d in (2, 4):
        out.append(ff.Basis.pauli(int(np.log2(d))))
    out.append(rotated_basis(rng, d))
    return out


def rel(got, ref):
    ref = np.asarray(ref)
    return float(np.max(np.abs(got - ref))/max(1.0, float(np.max(np.abs(ref))))) if ref.size else 0.0


class Acc:
    def __init__(self):
        self.dev = {}
        self.bad = []

    def num(self, comp, got, ref):
        e = rel(got, ref) if got is not None else np.inf
        self.dev[comp] = max(self.dev.get(comp, 0.0), e)

    def disc(self, comp, ok, what):
        self.dev.setdefault(comp, 0.0)
        if not ok:
            self.dev[comp] = np.inf
            self.bad.append((comp, what))


def kraus_cases(rng):
    """(tag, d, basis, weights, operators, predicted verdict or None)"""
    cases = []
    for i in range(40):
        d = int(rng.choice([2, 2, 3, 4]))
        bs = bases(rng, d)
        C = bs[int(rng.integers(0, len(bs)))]
        n = int(rng.integers(1, 5))
        kind = i % 8
        if kind == 0:      # convex mixture of unitaries
            A = [rand_unitary(rng, d) for _ in range(n)]
            w = rng.dirichlet(np.ones(n))
            pred = True
        elif kind == 1:    # generic CP map, non-negative weights
            A = [rand_cplx(rng, d) for _ in range(n)]
            w = rng.uniform(0, 2, n)
            pred = True
        elif kind == 2:    # one negative weight, operators linearly independent (n <= d*d)
            n = max(2, min(n, d*d))
            A = [rand_cplx(rng, d) for _ in range(n)]
            w = rng.uniform(0.2, 2, n)
            w[int(rng.integers(0, n))] *= -1
            pred = False
        elif kind == 3:    # negative weight inside the span and compensated: A_1 = A_0
            a = rand_cplx(rng, d)
            A = [a, a.copy()] + [rand_unitary(rng, d) for _ in range(n - 1)]
            w = np.concatenate(([1.0, -0.5], rng.uniform(0, 1, n - 1)))
            pred = True
        elif kind == 4:    # degenerate: zero weights / zero operator / identity
            A = [np.eye(d, dtype=complex), np.zeros((d, d), dtype=complex), rand_unitary(rng, d)]
            w = np.array([0.0, 1.0, 0.7])
            pred = True
        elif kind == 5:    # single unitary / identity channel
            A = [np.eye(d, dtype=complex) if i % 16 == 5 else rand_unitary(rng, d)]
            w = np.array([1.0])
            pred = True
        elif kind == 6:    # diagonal (commuting) Kraus operators, one negative weight
            A = [np.diag(np.exp(1j*rng.uniform(0, 2*np.pi, d))) for _ in range(2)]
            w = np.array([1.5, -0.5])
            pred = False
        else:              # 1.5 U rho U† - 0.5 V rho V†  (harness case of c15.py)
            A = [rand_unitary(rng, d) for _ in range(2)]
            w = np.array([1.5, -0.5])
            pred = False
        cases.append((f'kraus{i}/{kind}', d, C, np.asarray(w, dtype=float), np.array(A), pred))
    return cases


def run_kraus(acc, rng):
    cases = kraus_cases(rng)
    lines = []
    for tag, d, C, w, A, pred in cases:
        Cn = np.array(C).astype(complex)
        lines.append(f'liouville_kraus {d} {len(C)} {len(w)} {"1" if C.isherm else "0"} '
                     f'{arr2bits(w)} {cbits(A)} {cbits(Cn)}')
    outs = driver(lines)
    lines2, keep = [], []
    for (tag, d, C, w, A, pred), o in zip(cases, outs):
        N = len(C)
        # the real package: Liouville representation of every operator, weighted sum
        ref = sum(wm*so.liouville_representation(a, C) for wm, a in zip(w, A))
        got = bits2arr(o[3:], (N, N), cplx=True) if o.startswith('ok ') else None
        acc.num('liouville_kraus', got, ref)
        if got is None:
            continue
        Cn = np.array(C).astype(complex)
        lines2.append(f'choi {d} {N} {cbits(got)} {cbits(Cn)}')
        keep.append((tag, d, C, w, A, pred, ref))
    outs2 = driver(lines2)
    for (tag, d, C, w, A, pred, S), o in zip(keep, outs2):
        refc = so.liouville_to_choi(S, C)
        got = bits2arr(o[3:], (d*d, d*d), cplx=True) if o.startswith('ok ') else None
        acc.num('choi(kraus)', got, refc)
        # closed form  sum_m w_m |A_m>><<A_m|,  v_(a,c) = A[c,a]
        vs = [a.T.reshape(-1) for a in A]
        closed = sum(wm*np.outer(v, v.conj()) for wm, v in zip(w, vs))
        acc.num('choi = sum w |A>><<A|', refc, closed)
        verdict = bool(so.liouville_is_CP(S.real if np.iscomplexobj(S) else S, C))
        acc.disc('verdict', verdict == pred, f'{tag}: liouville_is_CP={verdict}, predicted {pred}')
        # the bound of `negative_kraus_weight_not_cp`: a vector orthogonal to the other v_k
        if pred is False:
            m = int(np.argmin(w))
            others = np.array([v for k, v in enumerate(vs) if k != m])
            # x = component of v_m orthogonal to span(others)
            q, _ = np.linalg.qr(others.T)
            x = vs[m] - q @ (q.conj().T @ vs[m])
            qf = (x.conj() @ refc @ x).real
            nx = (x.conj() @ x).real
            _, (D, _) = so.liouville_is_CP(S, C, return_eig=True)
            acc.disc('bound', D.min() <= qf/nx + 1e-9 and qf < 0,
                     f'{tag}: min eig {D.min()} vs quadratic form {qf/nx}')


def run_repr(acc, rng):
    lines, refs = [], []
    for d in ([2, 2, 3, 4, 5, 13] if os.environ.get('FFV_TIER', 'thorough') != 'quick' else [2, 3, 4, 5]):
        C = ff.Basis.ggm(d)
        Cn = np.array(C).astype(complex)
        for U in ([rand_unitary(rng, d), np.eye(d, dtype=complex)] if d < 13
                  else [rand_unitary(rng, d)]):
            cb = np.einsum('ba,ibc,cd->iad', U.conj(), Cn, U)
            for herm in (True, False):
                lines.append(f'liouville_repr {d} 1 {int(herm)} {cbits(U)} {cbits(Cn)}')
                refs.append(('liouville_repr(closed form)', _b.ggm_expand(cb, hermitian=herm)))
                lines.append(f'liouville_repr {d} 0 {int(herm)} {cbits(U)} {cbits(Cn)}')
                refs.append(('liouville_repr(generic)', _b.expand(cb, C, hermitian=herm)))
            # the function itself (d = 13: closed-form branch of the package; otherwise generic)
            lines.append(f'liouville_repr {d} {int(d > 12)} 1 {cbits(U)} {cbits(Cn)}')
            refs.append(('liouville_repr(package branch)', so.liouville_representation(U, C)))
    # non-unitary input on both paths
    d = 3
    C = ff.Basis.ggm(d)
    Cn = np.array(C).astype(complex)
    U = rand_cplx(rng, d)
    cb = np.einsum('ba,ibc,cd->iad', U.conj(), Cn, U)
    lines.append(f'liouville_repr {d} 1 0 {cbits(U)} {cbits(Cn)}')
    refs.append(('liouville_repr(closed form)', _b.ggm_expand(cb, hermitian=False)))
    outs = driver(lines)
    for o, (comp, ref) in zip(outs, refs):
        ref = np.asarray(ref).astype(complex)
        got = bits2arr(o[3:], ref.shape, cplx=True) if o.startswith('ok ') else None
        acc.num(comp, got, ref)


def run_stack(acc, rng):
    lines, refs = [], []
    for i in range(12):
        d = int(rng.choice([2, 3, 4]))
        bs = bases(rng, d)
        C = bs[int(rng.integers(0, len(bs)))]
        Z = int(rng.integers(0 if i == 0 else 1, 4))
        Us = np.array([rand_unitary(rng, d) for _ in range(Z)]).reshape(Z, d, d)
        if i % 4 == 1:
            Us[0] = np.eye(d)
        ref = so.liouville_representation(Us, C) if Z else np.zeros((0, len(C), len(C)))
        lines.append(f'liouville_stack {d} {len(C)} {Z} {int(C.isherm)} {cbits(Us)} '
                     f'{cbits(np.array(C))}')
        refs.append(np.asarray(ref).astype(complex))
        # the stack of representations
        if Z:
            single = np.array([so.liouville_representation(u, C) for u in Us])
            acc.num('stack = map', ref, single)
    outs = driver(lines)
    for o, ref in zip(outs, refs):
        if ref.size == 0:
            acc.disc('liouville_stack', o.strip() == 'ok', 'empty stack')
            continue
        got = bits2arr(o[3:], ref.shape, cplx=True) if o.startswith('ok ') else None
        acc.num('liouville_stack', got, ref)


def run_concat(acc, rng):
    lines, refs = [], []
    for i in range(10):
        d = int(rng.choice([2, 2, 3]))
        C = ff.Basis.pauli(1) if d == 2 and i % 2 == 0 else ff.Basis.ggm(d)
        n = int(rng.integers(1, 4))
        pulses = []
        for _ in range(n):
            ndt = int(rng.integers(1, 4))
            h = rng.standard_normal((d, d)) + 1j*rng.standard_normal((d, d))
            h = (h + h.conj().T)/2
            h2 = rng.standard_normal((d, d))
            h2 = (h2 + h2.T)/2
            pulses.append(ff.PulseSequence(
                [[h, rng.standard_normal(ndt), 'c0'], [h2, rng.standard_normal(ndt), 'c1']],
                [[h2, np.ones(ndt), 'n0']], rng.uniform(0.1, 1, ndt), basis=C))
        new = ff.concatenate(pulses, omega=np.linspace(0.1, 2, 3)) if i % 2 else \
            ff.concatenate(pulses)
        Q = np.array([p.total_propagator for p in pulses])
        lines.append(f'concat_total_liouville {d} {len(C)} {n} {int(C.isherm)} {cbits(Q)} '
                     f'{cbits(np.array(C))}')
        refs.append(np.asarray(new.total_propagator_liouville).astype(complex))
        # product of the inputs' cached Liouville propagators, latest pulse leftmost
        prod = np.eye(len(C))
        for p in pulses:
            prod = p.total_propagator_liouville @ prod
        acc.num('total L = product of inputs', new.total_propagator_liouville, prod)
    outs = driver(lines)
    for o, ref in zip(outs, refs):
        got = bits2arr(o[3:], ref.shape, cplx=True) if o.startswith('ok ') else None
        acc.num('concat_total_liouville', got, ref)


def run_lindblad(acc, rng):
    """specification-level facts used by `cp_exp_lindblad`, checked on the real package (no driver):
    tr(C_i L(C_j)) = liouGen(K) + liouKraus(gamma, A) with K = -iH - 1/2 sum gamma A†A, and
    liouville_is_CP(expm(t L)) is True for t >= 0 / False for a negative rate."""
    from scipy.linalg import expm
    for i in range(12):
        d = int(rng.choice([2, 3, 4]))
        bs = bases(rng, d)
        C = bs[int(rng.integers(0, len(bs)))]
        Cn = np.array(C).astype(complex)
        h = rand_cplx(rng, d)
        h = (h + h.conj().T)/2
        A = [rand_cplx(rng, d) for _ in range(2)]
        g = rng.uniform(0.1, 1, 2)

        def gen(rho, gs):
            out = -1j*(h @ rho - rho @ h)
            for a, gk in zip(A, gs):
                out = out + gk*(a @ rho @ a.conj().T
                                - 0.5*(a.conj().T @ a @ rho + rho @ a.conj().T @ a))
            return out

        def liou_gen(gs):
            return np.array([[np.trace(Cn[i] @ gen(Cn[j], gs)) for j in range(len(Cn))]
                             for i in range(len(Cn))])
        L = liou_gen(g)
        K = -1j*h - 0.5*sum(gk*a.conj().T @ a for a, gk in zip(A, g))
        GK = np.array([[np.trace(Cn[i] @ (K @ Cn[j] + Cn[j] @ K.conj().T))
                        for j in range(len(Cn))] for i in range(len(Cn))])
        SK = sum(gk*so.liouville_representation(a, C) for a, gk in zip(A, g))
        acc.num('lindbladLiou = liouGen + liouKraus', L, GK + SK)
        for t in (0.0, 0.3, 2.0):
            acc.disc('verdict exp(t L)', bool(so.liouville_is_CP(expm(t*L).real, C)),
                     f'lindblad {i}: exp({t} L) judged not CP')
        Lneg = liou_gen([1.0, -0.8])
        acc.disc('verdict exp(t L), negative rate',
                 not bool(so.liouville_is_CP(expm(0.3*Lneg).real, C)),
                 f'lindblad {i}: negative rate judged CP')


def main():
    seed = int(os.environ.get('VERIF_SEED', '0'))
    rng = np.random.default_rng([20261001, seed])
    acc = Acc()
    run_lindblad(acc, np.random.default_rng([77, seed]))
    run_kraus(acc, rng)
    run_repr(acc, rng)
    run_stack(acc, rng)
    run_concat(acc, rng)
    ok = True
    for k, v in acc.dev.items():
        print(f'{k:40s} max rel deviation {v:.3e}')
        ok = ok and v <= 1e-9
    for comp, what in acc.bad:
        print('MISMATCH', comp, what)
    print('OK' if ok else 'FAIL')
    return 0 if ok else 1


if __name__ == '__main__':
    sys.exit(main())
