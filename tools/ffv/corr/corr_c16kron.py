#!/venv/bin/python
"""Correspondence of the Lean model FFVerif/Model/TensorNum.lean (driver component `tnum`) with the
real helpers util.tensor / tensor_transpose / tensor_insert / tensor_merge (rank 2, no broadcast
axes):

  * tensor(*args): heterogeneous chains of 1..5 factors with dimensions 1..4 (rows and columns
    independent), complex random and small-integer entries;
  * tensor_transpose: all permutations (n <= 3) / random permutations (n = 4, 5) of the formed
    product, and rejected orders (repeated, negative, wrong length);
  * tensor_insert: every position tuple in [-n-1, n+1]^k (incl. negative, repeated, end and
    inadmissible positions) for small chains, sequence and integer `pos`, empty chain;
  * tensor_merge: the same position tuples.

Prints the maximal relative deviation per component (outcome class / shape mismatches as a count);
exit 0 iff all <= 1e-9."""
import itertools
import os
import struct
import subprocess
import sys

sys.path.insert(0, os.environ.get('FFV_REPO', '/repo'))
import numpy as np  # noqa: E402

from filter_functions import util  # noqa: E402

LEAN = os.environ.get('FFV_LEAN', '/verif/lean')
TOL = 1e-9
QUICK = os.environ.get('FFV_TIER', '') == 'quick'
SEED = int(os.environ.get('VERIF_SEED', '20260930'))


def f2b(x):
    return str(struct.unpack('>Q', struct.pack('>d', float(x)))[0])


def b2f(s):
    return struct.unpack('>d', struct.pack('>Q', int(s)))[0]


def arr2bits(a):
    a = np.asarray(a)
    if a.size == 0:
        return '-'
    flat = np.ascontiguousarray(a).astype(complex).view(float).ravel()
    return ','.join(f2b(v) for v in flat)


def driver(lines):
    p = subprocess.run(['lake', 'env', 'lean', '--run', 'Driver.lean'], cwd=LEAN,
                       input='\n'.join(lines) + '\n', capture_output=True, text=True, timeout=3000)
    if p.returncode != 0:
        raise RuntimeError('lean driver failed: ' + (p.stderr or p.stdout)[-2000:])
    res = [ln for ln in p.stdout.split('\n') if ln.startswith('ok') or ln.startswith('err')]
    if len(res) != len(lines):
        raise RuntimeError(f'driver answered {len(res)} lines for {len(lines)} requests')
    return res


def ints(lst):
    lst = list(lst)
    return ','.join(str(int(v)) for v in lst) if lst else '_'


def shapes(arrs):
    return ';'.join(ints(a.shape) for a in arrs) if arrs else '_'


def cat(arrs):
    if not arrs:
        return '-'
    return arr2bits(np.concatenate([np.asarray(a).astype(complex).ravel() for a in arrs]))


def dims_of(arrs):
    return [[a.shape[0] for a in arrs], [a.shape[1] for a in arrs]]


def dims_str(dims):
    return ';'.join(ints(d) for d in dims)


def parse(ans):
    if ans.startswith('err'):
        return ('err', ans.split()[1])
    body = ans[3:]
    sh, dat = body.split(';')
    sh = tuple(int(t) for t in sh.split(',')) if sh else ()
    vals = np.array([b2f(t) for t in dat.split(',') if t], dtype=float).view(complex)
    return ('ok', vals.reshape(sh))


def real_call(fn):
    try:
        return ('ok', np.asarray(fn()))
    except (ValueError, IndexError, ZeroDivisionError, TypeError) as e:
        return ('err', type(e).__name__)


class Stat:
    def __init__(self):
        self.dev = {}
        self.bad = []

    def add(self, comp, real, lean, what):
        self.dev.setdefault(comp, 0.0)
        self.dev.setdefault(comp + ' outcome/shape', 0.0)
        if real[0] != lean[0] or (real[0] == 'err' and real[1] != lean[1]):
            self.dev[comp + ' outcome/shape'] += 1.0
            self.bad.append(f'MISMATCH {comp} outcome {what}: real {real[0]} '
                            f'{real[1] if real[0] == "err" else ""} lean {lean[0]} '
                            f'{lean[1] if lean[0] == "err" else ""}')
            return
        if real[0] == 'err':
            return
        r, m = real[1], lean[1]
        if r.shape != m.shape:
            self.dev[comp + ' outcome/shape'] += 1.0
            self.bad.append(f'MISMATCH {comp} shape {what}: real {r.shape} lean {m.shape}')
            return
        scale = max(1.0, float(np.abs(r).max()) if r.size else 1.0)
        d = float(np.abs(r - m).max()) / scale if r.size else 0.0
        self.dev[comp] = max(self.dev[comp], d)
        if not d <= TOL:
            self.bad.append(f'MISMATCH {comp} values {what}: dev {d}')


def rand_mat(rng, r, c, integer=False):
    if integer:
        return rng.integers(-3, 4, (r, c)).astype(complex)
    return rng.standard_normal((r, c)) + 1j*rng.standard_normal((r, c))


def rand_chain(rng, n, maxsize=3000, integer=False, maxdim=4):
    while True:
        sh = [(int(rng.integers(1, maxdim + 1)), int(rng.integers(1, maxdim + 1)))
              for _ in range(n)]
        if np.prod([s[0] for s in sh])*np.prod([s[1] for s in sh]) <= maxsize:
            break
    return [rand_mat(rng, r, c, integer) for r, c in sh]


def main():
    rng = np.random.default_rng(SEED)
    reqs, reals, comps, whats = [], [], [], []

    def push(comp, req, fn, what):
        reqs.append(req)
        reals.append(real_call(fn))
        comps.append(comp)
        whats.append(what)

    # ---------------------------------------------------------------- tensor
    n_chain = 6 if QUICK else 30
    for it in range(n_chain):
        n = 1 + it % 5
        L = rand_chain(rng, n, integer=(it % 3 == 2))
        push('tensor', f'tnum chain {shapes(L)} {cat(L)}', lambda L=L: util.tensor(*L),
             f'shapes {[a.shape for a in L]}')
    # vectors (1-d arguments are promoted to (1, x))
    v = [rng.standard_normal(3) + 0j, rand_mat(rng, 2, 2)]
    push('tensor', f'tnum chain {shapes(v)} {cat(v)}', lambda: util.tensor(*v), '1-d argument')
    push('tensor', 'tnum chain _ -', lambda: util.tensor(), 'no argument')

    # ---------------------------------------------------------------- tensor_transpose
    for n in range(1, 6):
        if QUICK and n > 3:
            break
        L = rand_chain(rng, n, maxsize=2000, integer=(n == 3))
        arr = util.tensor(*L)
        dims = dims_of(L)
        if n <= 3:
            orders = list(itertools.permutations(range(n)))
        else:
            orders = [tuple(rng.permutation(n)) for _ in range(4)]
        bad_orders = [tuple([0]*n), tuple(range(n - 1)), tuple(range(n + 1)),
                      tuple([-1] + list(range(1, n))), tuple([n] + list(range(1, n)))]
        for order in orders + bad_orders:
            push('tensor_transpose',
                 f'tnum transpose {ints(arr.shape)} {arr2bits(arr)} {ints(order)} {dims_str(dims)}',
                 lambda arr=arr, order=order, dims=dims: util.tensor_transpose(arr, order, dims),
                 f'dims {dims} order {order}')
    one = rand_mat(rng, 1, 1)
    push('tensor_transpose', f'tnum transpose 1,1 {arr2bits(one)} _ _;_',
         lambda: util.tensor_transpose(one, (), [[], []]), 'empty chain')
    # wrong arr_dims
    L = rand_chain(rng, 2)
    arr = util.tensor(*L)
    for dims in ([[2, 2], [2]], [[7, 1], [1, 7]], [[2, 2]]):
        push('tensor_transpose',
             f'tnum transpose {ints(arr.shape)} {arr2bits(arr)} 1,0 {dims_str(dims)}',
             lambda arr=arr, dims=dims: util.tensor_transpose(arr, (1, 0), dims),
             f'bad dims {dims}')

    # ---------------------------------------------------------------- tensor_insert / merge
    cases = [(0, 1), (1, 1), (1, 2), (2, 1), (2, 2), (3, 2), (2, 3), (3, 3), (4, 2)]
    if QUICK:
        cases = [(0, 1), (1, 2), (2, 2), (3, 2)]
    for n, k in cases:
        L = rand_chain(rng, n, maxsize=300, maxdim=3, integer=(n == 2 and k == 2)) if n else []
        arr = util.tensor(*L) if n else rand_mat(rng, 1, 1)
        dims = dims_of(L) if n else [[], []]
        A = rand_chain(rng, k, maxsize=40, maxdim=3)
        ins = util.tensor(*A)
        idims = dims_of(A)
        allpos = list(itertools.product(range(-n - 1, n + 2), repeat=k))
        limit = 40 if QUICK else 260
        if len(allpos) > limit:
            sel = rng.choice(len(allpos), limit, replace=False)
            allpos = [allpos[i] for i in sorted(sel)]
        for pos in allpos:
            push('tensor_insert',
                 f'tnum insert {ints(arr.shape)} {arr2bits(arr)} {shapes(A)} {cat(A)} '
                 f'{ints(pos)} {dims_str(dims)}',
                 lambda arr=arr, A=A, pos=pos, dims=dims:
                 util.tensor_insert(arr, *A, pos=tuple(pos), arr_dims=dims),
                 f'dims {dims} args {[a.shape for a in A]} pos {pos}')
            push('tensor_merge',
                 f'tnum merge {ints(arr.shape)} {arr2bits(arr)} {ints(ins.shape)} '
                 f'{arr2bits(ins)} {ints(pos)} {dims_str(dims)} {dims_str(idims)}',
                 lambda arr=arr, ins=ins, pos=pos, dims=dims, idims=idims:
                 util.tensor_merge(arr, ins, pos=list(pos), arr_dims=dims, ins_dims=idims),
                 f'dims {dims} ins dims {idims} pos {pos}')
        for p in range(-n - 1, n + 2):
            push('tensor_insert int pos',
                 f'tnum insert_int {ints(arr.shape)} {arr2bits(arr)} {shapes(A)} {cat(A)} '
                 f'{p} {dims_str(dims)}',
                 lambda arr=arr, A=A, p=p, dims=dims:
                 util.tensor_insert(arr, *A, pos=p, arr_dims=dims),
                 f'dims {dims} args {[a.shape for a in A]} pos {p}')
        # wrong number of positions / wrong dims
        push('tensor_insert',
             f'tnum insert {ints(arr.shape)} {arr2bits(arr)} {shapes(A)} {cat(A)} '
             f'{ints([0]*(k + 1))} {dims_str(dims)}',
             lambda arr=arr, A=A, dims=dims:
             util.tensor_insert(arr, *A, pos=tuple([0]*(k + 1)), arr_dims=dims), 'len(pos) wrong')
        push('tensor_merge',
             f'tnum merge {ints(arr.shape)} {arr2bits(arr)} {ints(ins.shape)} '
             f'{arr2bits(ins)} {ints([0]*(k + 1))} {dims_str(dims)} {dims_str(idims)}',
             lambda arr=arr, ins=ins, dims=dims, idims=idims:
             util.tensor_merge(arr, ins, pos=[0]*(k + 1), arr_dims=dims, ins_dims=idims),
             'len(pos) wrong')
        if n:
            wd = [[d + 1 for d in dims[0]], dims[1]]
            push('tensor_insert',
                 f'tnum insert {ints(arr.shape)} {arr2bits(arr)} {shapes(A)} {cat(A)} '
                 f'{ints([0]*k)} {dims_str(wd)}',
                 lambda arr=arr, A=A, wd=wd:
                 util.tensor_insert(arr, *A, pos=tuple([0]*k), arr_dims=wd), 'wrong arr_dims')
            push('tensor_merge',
                 f'tnum merge {ints(arr.shape)} {arr2bits(arr)} {ints(ins.shape)} '
                 f'{arr2bits(ins)} {ints([0]*k)} {dims_str(wd)} {dims_str(idims)}',
                 lambda arr=arr, ins=ins, wd=wd, idims=idims:
                 util.tensor_merge(arr, ins, pos=[0]*k, arr_dims=wd, ins_dims=idims),
                 'wrong arr_dims')

    answers = driver(reqs)
    st = Stat()
    for comp, real, ans, what in zip(comps, reals, answers, whats):
        st.add(comp, real, parse(ans), what)
    for ln in st.bad[:40]:
        print(ln)
    ok = True
    for comp in sorted(st.dev):
        print(f'{comp}  max rel deviation {st.dev[comp]:.3e}')
        ok = ok and st.dev[comp] <= TOL
    print(f'{len(reqs)} requests')
    sys.exit(0 if ok else 1)


if __name__ == '__main__':
    main()
