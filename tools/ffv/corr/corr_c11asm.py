"""Correspondence check C11Asm: the real `gradient.calculate_derivative_of_control_matrix_from_scratch`
versus the Lean model `controlMatrixDerivFromScratch` (driver component `cmderiv`) on the same
inputs.  Run with /venv/bin/python; exit 0 iff every component deviates by <= 1e-9 (relative to the
largest entry of the reference).

Inputs: random pulses d = 2, 3, 4 (1..4 segments); idle (H = 0) and degenerate segments; omega = 0
and exactly resonant frequencies; with / without n_coeffs_deriv; non-traceless control and noise
operators; Pauli / GGM / non-Hermitian (matrix-unit) bases; a subset of the control operators.
The pulse's own eigvals / eigvecs / propagators (`pulse.diagonalize()`) are the oracle inputs.
"""
import os
import struct
import subprocess
import sys

sys.path.insert(0, os.environ.get('FFV_REPO', '/repo'))
import numpy as np  # noqa: E402

import filter_functions as ff  # noqa: E402
from filter_functions import gradient  # noqa: E402

LEAN = os.environ.get('FFV_LEAN', '/verif/lean')
TOL = 1e-9


def f2b(x):
    return str(struct.unpack('>Q', struct.pack('>d', float(x)))[0])


def b2f(s):
    return struct.unpack('>d', struct.pack('>Q', int(s)))[0]


def arr2bits(a):
    a = np.asarray(a)
    if np.iscomplexobj(a):
        flat = np.ascontiguousarray(a).astype(complex).view(float).ravel()
    else:
        flat = a.astype(float).ravel()
    return ','.join(f2b(v) for v in flat) if flat.size else '-'


def bits2arr(s, shape=None, cplx=False):
    vals = np.array([b2f(t) for t in s.split(',') if t], dtype=float)
    if cplx:
        vals = vals.view(complex)
    if shape is not None:
        vals = vals.reshape(shape)
    return vals


def driver(lines, timeout=3600):
    inp = '\n'.join(lines) + '\n'
    p = subprocess.run(['lake', 'env', 'lean', '--run', 'Driver.lean'], cwd=LEAN, input=inp,
                       capture_output=True, text=True, timeout=timeout)
    if p.returncode != 0:
        raise RuntimeError('lean driver failed: ' + (p.stderr or p.stdout)[-2000:])
    res = [ln for ln in p.stdout.split('\n') if ln.startswith('ok') or ln.startswith('err')]
    if len(res) != len(lines):
        raise RuntimeError(f'driver answered {len(res)} lines for {len(lines)} requests')
    return res


def rel_err(a, b):
    a, b = np.asarray(a), np.asarray(b)
    if a.shape != b.shape:
        return np.inf
    if a.size == 0:
        return 0.0
    if not np.all(np.isfinite(a)):
        return np.inf
    return float(np.max(np.abs(a - b))/max(np.max(np.abs(b)), 1e-300))


def rand_herm(rng, d, traceless=False):
    a = rng.standard_normal((d, d)) + 1j*rng.standard_normal((d, d))
    h = (a + a.conj().T)/2
    if traceless:
        h = h - np.trace(h)/d*np.eye(d)
    return h


def matrix_unit_basis(d):
    """orthonormal, complete, NOT Hermitian: the matrix units E_ij"""
    els = np.zeros((d*d, d, d), dtype=complex)
    for i in range(d):
        for j in range(d):
            els[i*d + j, i, j] = 1
    return ff.Basis(els)


def make_case(rng, d, nG, kind, basis_kind, with_ncd, omega_kind, sub_ctrl):
    """returns (pulse, omega, c_idx, n_coeffs_deriv)"""
    nC = int(rng.integers(1, 4))
    nA = int(rng.integers(1, 3))
    if kind == 'diag':
        # commuting diagonal control operators with integer entries: exactly degenerate levels and
        # exactly resonant frequencies are representable
        c_opers = [np.diag(rng.integers(-2, 3, d)).astype(complex) for _ in range(nC)]
        c_coeffs = rng.integers(-2, 3, (nC, nG)).astype(float)
    else:
        c_opers = [rand_herm(rng, d, traceless=bool(rng.integers(0, 2))) for _ in range(nC)]
        c_coeffs = rng.normal(size=(nC, nG))
    if kind == 'idle' and nG >= 1:
        c_coeffs[:, int(rng.integers(0, nG))] = 0.0
    if kind == 'degenerate':
        # one segment with a projector-like Hamiltonian (repeated eigenvalues), not diagonal
        v = rng.standard_normal(d) + 1j*rng.standard_normal(d)
        v /= np.linalg.norm(v)
        c_opers[0] = np.outer(v, v.conj())
        g = int(rng.integers(0, nG))
        c_coeffs[1:, g] = 0.0
    n_opers = [rand_herm(rng, d, traceless=bool(rng.integers(0, 2))) for _ in range(nA)]
    n_coeffs = rng.uniform(0.5, 1.5, size=(nA, nG))
    dt = rng.uniform(0.2, 1.5, size=nG)
    if kind == 'diag':
        dt = rng.integers(1, 3, nG).astype(float)
    if basis_kind == 'pauli' and d in (2, 4):
        basis = ff.Basis.pauli(int(np.log2(d)))
    elif basis_kind == 'units':
        basis = matrix_unit_basis(d)
    else:
        basis = ff.Basis.ggm(d)
    H_c = [[op, list(c)] for op, c in zip(c_opers, c_coeffs)]
    H_n = [[op, list(c)] for op, c in zip(n_opers, n_coeffs)]
    pulse = ff.PulseSequence(H_c, H_n, list(dt), basis=basis)
    pulse.diagonalize()
    if omega_kind == 'resonant':
        g = int(rng.integers(0, nG))
        ev = pulse.eigvals[g]
        dE = np.subtract.outer(ev, ev).ravel()
        omega = np.concatenate(([0.0], -dE[rng.integers(0, dE.size, 2)], dE[rng.integers(0, dE.size, 1)],
                                rng.normal(size=1)))
    elif omega_kind == 'zero':
        omega = np.array([0.0])
    else:
        omega = rng.normal(size=int(rng.integers(1, 4)))*3
    c_idx = np.arange(nC)
    if sub_ctrl and nC > 1:
        c_idx = rng.permutation(nC)[:nC - 1]
    ncd = rng.normal(size=(nA, len(c_idx), nG)) if with_ncd else None
    return pulse, np.asarray(omega, float), c_idx, ncd


def request(pulse, omega, c_idx, ncd):
    d, nG = pulse.d, len(pulse.dt)
    c_opers = pulse.c_opers[c_idx]
    basis = pulse.basis
    nA, nH, nK = len(pulse.n_opers), len(c_opers), len(basis)
    with np.errstate(all='ignore'):
        ref = gradient.calculate_derivative_of_control_matrix_from_scratch(
            omega, pulse.propagators, pulse.eigvals, pulse.eigvecs, basis, pulse.t, pulse.dt,
            pulse.n_opers, pulse.n_coeffs, c_opers, ncd)
    req = ' '.join([
        'cmderiv', str(nG), str(d), str(len(omega)), str(nA), str(nH), str(nK),
        '1' if basis.isherm else '0', '0' if ncd is None else '1',
        arr2bits(pulse.eigvals), arr2bits(pulse.eigvecs.astype(complex)),
        arr2bits(pulse.propagators.astype(complex)), arr2bits(omega),
        arr2bits(np.asarray(basis).astype(complex)), arr2bits(pulse.n_opers.astype(complex)),
        arr2bits(pulse.n_coeffs), arr2bits(c_opers.astype(complex)),
        '-' if ncd is None else arr2bits(ncd), arr2bits(pulse.dt), arr2bits(pulse.t)])
    return req, ref


def main():
    rng = np.random.default_rng([20261001, int(os.environ.get('VERIF_SEED', '0'))])
    quick = '--quick' in sys.argv or os.environ.get('FFV_TIER', 'thorough') == 'quick'
    cases = []
    kinds = ['random', 'idle', 'degenerate', 'diag']
    for d in (2, 3, 4):
        for kind in kinds:
            for omega_kind in ('random', 'zero', 'resonant'):
                for with_ncd in (False, True):
                    reps = 1 if (quick or d == 4) else 2
                    for _ in range(reps):
                        nG = int(rng.integers(1, 5 if d < 4 else 4))
                        bk = ['pauli', 'ggm', 'units'][int(rng.integers(0, 3))]
                        if d == 4 and bk == 'units' and quick:
                            bk = 'pauli'
                        cases.append((f'd{d}-{kind}-{omega_kind}-{"ncd" if with_ncd else "noncd"}-{bk}-G{nG}',
                                      make_case(rng, d, nG, kind, bk, with_ncd, omega_kind,
                                                bool(rng.integers(0, 2)))))
    # single-segment and two-segment pulses of every dimension explicitly (n_dt - 1 = 0 / 1)
    for d in (2, 3):
        for nG in (1, 2):
            cases.append((f'd{d}-edge-G{nG}', make_case(rng, d, nG, 'random', 'ggm', True, 'resonant', False)))
    reqs, refs, names = [], [], []
    for name, (pulse, omega, c_idx, ncd) in cases:
        r, ref = request(pulse, omega, c_idx, ncd)
        reqs.append(r)
        refs.append(ref)
        names.append(name)
    outs = driver(reqs)
    comp = {}
    worst = (0.0, None)
    for name, ref, o in zip(names, refs, outs):
        got = bits2arr(o[3:], ref.shape, cplx=True) if o.startswith('ok ') else None
        err = rel_err(got, ref) if got is not None else np.inf
        key = '-'.join(name.split('-')[:2])
        comp[key] = max(comp.get(key, 0.0), err)
        if err >= worst[0]:
            worst = (err, name)
    print(f'cmderiv: {len(reqs)} cases')
    for k in sorted(comp):
        print(f'cmderiv {k:24s} max rel deviation {comp[k]:.3e}')
    print(f'worst: {worst[1]} {worst[0]:.3e}')
    ok = all(v <= TOL for v in comp.values())
    print('OK' if ok else 'FAIL')
    return 0 if ok else 1


if __name__ == '__main__':
    sys.exit(main())
