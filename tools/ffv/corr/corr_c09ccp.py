#!/venv/bin/python
"""Correspondence of the Lean model of `superoperator.liouville_is_CP` / `liouville_is_cCP`
(`Model.projQ`, `Model.projectedChoi`, `Model.defaultAtol`, `Model.cpVerdictB`,
`Model.cpTestAfterEigh`; driver components `projq`, `projchoi`, `cpverdict`) with the real package.

For seeded random and structured superoperators (CP / non-CP channels, Lindblad / non-Lindblad
generators, cumulant functions from PSD and non-PSD decay amplitudes, zero, identity,
degenerate spectra; d = 2, 3, 4; Pauli / GGM / rotated / signed / permuted bases):

* `projq`      Q of liouville_is_cCP, bit for bit;
* `projchoi`   Q @ choi @ Q  (max abs deviation relative to max(1, |choi|) <= 1e-12);
* `cpverdict`  the verdict (D >= -atol).all() and the default tolerance, as functions of the
               eigenvalues the real call returned (return_eig=True), for atol=None and explicit atol:
               verdict exact, tolerance bit for bit;  plus end-to-end: eigvalsh of the MODEL's
               projected Choi matrix fed to the model's verdict == the package's verdict whenever
               the smallest eigenvalue is not within atol/2 of the threshold -atol.

Exit status 0 iff every component agrees.
"""
import os
import struct
import subprocess
import sys

sys.path.insert(0, os.environ.get('FFV_REPO', '/repo'))
import numpy as np  # noqa: E402
from numpy import linalg as nla  # noqa: E402

import filter_functions as ff  # noqa: E402
from filter_functions import superoperator as so  # noqa: E402

LEAN = os.environ.get('FFV_LEAN', '/verif/lean')


def f2b(x):
    return str(struct.unpack('>Q', struct.pack('>d', float(x)))[0])


def b2f(s):
    return struct.unpack('>d', struct.pack('>Q', int(s)))[0]


def arr2bits(a):
    a = np.asarray(a)
    if np.iscomplexobj(a):
        flat = np.ascontiguousarray(a).astype(complex).view(float).ravel()
    else:
        flat = a.astype(float).ravel()
    return ','.join(f2b(v) for v in flat) if flat.size else '-'


def bits2arr(s, shape=None, cplx=False):
    vals = np.array([b2f(t) for t in s.split(',') if t], dtype=float)
    if cplx:
        vals = vals.view(complex)
    if shape is not None:
        vals = vals.reshape(shape)
    return vals


def driver(lines):
    inp = '\n'.join(lines) + '\n'
    p = subprocess.run(['lake', 'env', 'lean', '--run', 'Driver.lean'], cwd=LEAN, input=inp,
                       capture_output=True, text=True, timeout=3600)
    if p.returncode != 0:
        raise RuntimeError('lean driver failed: ' + (p.stderr or p.stdout)[-2000:])
    res = [ln for ln in p.stdout.split('\n') if ln.startswith('ok') or ln.startswith('err')]
    if len(res) != len(lines):
        raise RuntimeError(f'driver answered {len(res)} lines for {len(lines)} requests')
    return res


# ------------------------------------------------------------------------------------------------
# inputs
# ------------------------------------------------------------------------------------------------
def rand_unitary(rng, d):
    z = rng.standard_normal((d, d)) + 1j*rng.standard_normal((d, d))
    q, r = nla.qr(z)
    return q*(np.diag(r)/np.abs(np.diag(r)))


def rand_herm(rng, d):
    z = rng.standard_normal((d, d)) + 1j*rng.standard_normal((d, d))
    return (z + z.conj().T)/2


def rand_orth(rng, n):
    q, r = nla.qr(rng.standard_normal((n, n)))
    return q*np.sign(np.diag(r))


def bases(rng, d):
    out = [('ggm', ff.Basis.ggm(d))]
    if d in (2, 4):
        out.append(('pauli', ff.Basis.pauli(int(np.log2(d)))))
    G = np.array(ff.Basis.ggm(d))
    # rotated: real orthogonal mixing of a Hermitian orthonormal basis stays Hermitian orthonormal
    O = rand_orth(rng, d*d)
    out.append(('rotated', ff.Basis(np.einsum('ij,jab->iab', O, G), btype='Custom')))
    # conjugated with a unitary
    U = rand_unitary(rng, d)
    out.append(('conjugated', ff.Basis(np.einsum('ba,ibc,cd->iad', U.conj(), G, U), btype='Custom')))
    # signed / permuted elements (derived through the constructor)
    sg = rng.choice([-1.0, 1.0], d*d)
    perm = rng.permutation(d*d)
    out.append(('signperm', ff.Basis((sg[:, None, None]*G)[perm], btype='Custom')))
    return out


def liou_of_map(Cn, f):
    N = len(Cn)
    return np.array([[np.trace(Cn[i] @ f(Cn[j])) for j in range(N)] for i in range(N)])


def superops(rng, d, Cn):
    """list of (label, Liouville matrix (complex or real), expected kind)"""
    N = len(Cn)
    dag = lambda a: a.conj().T  # noqa: E731
    out = []
    Us = [rand_unitary(rng, d) for _ in range(3)]
    w = rng.dirichlet(np.ones(3))
    out.append(('unitary', liou_of_map(Cn, lambda r: Us[0] @ r @ dag(Us[0])).real))
    out.append(('mixture', liou_of_map(Cn, lambda r: sum(x*u @ r @ dag(u) for x, u in zip(w, Us))).real))
    out.append(('negKraus', liou_of_map(Cn, lambda r: 1.5*Us[0] @ r @ dag(Us[0])
                                        - 0.5*Us[1] @ r @ dag(Us[1])).real))
    out.append(('transpose', liou_of_map(Cn, lambda r: r.T)))
    A = [rng.standard_normal((d, d)) + 1j*rng.standard_normal((d, d)) for _ in range(3)]
    H = rand_herm(rng, d)

    def lind(gs, h=H):
        def f(r):
            return -1j*(h @ r - r @ h) + sum(
                g*(a @ r @ dag(a) - 0.5*(dag(a) @ a @ r + r @ dag(a) @ a)) for a, g in zip(A, gs))
        return f
    out.append(('lindblad', liou_of_map(Cn, lind(rng.uniform(0.1, 1, 3)))))
    out.append(('lindblad_small', liou_of_map(Cn, lind(rng.uniform(0.1, 1, 3)*1e-9))))
    out.append(('lindblad_large', liou_of_map(Cn, lind(rng.uniform(0.1, 1, 3)*1e6))))
    out.append(('lindblad_onerate', liou_of_map(Cn, lind([0.7, 0, 0]))))
    out.append(('hamiltonian_only', liou_of_map(Cn, lind([0, 0, 0]))))
    out.append(('negrate', liou_of_map(Cn, lind([1.0, -0.8, 0.3]))))
    out.append(('negrate_only', liou_of_map(Cn, lind([0.0, -0.5, 0.0], h=0*H))))
    # cumulant function of the package formula from decay amplitudes
    X = rng.standard_normal((N, N))
    for lab, Gam in (('K_psd', X @ X.T), ('K_rank1', np.outer(X[0], X[0])), ('K_zero', 0*X),
                     ('K_diag', np.diag(rng.uniform(0, 1, N))),
                     ('K_nonpsd', X @ X.T - 2.0*np.outer(X[1], X[1])),
                     ('K_negdiag', -np.diag(rng.uniform(0.1, 1, N)))):
        def f(r, Gam=Gam):
            s = 0
            for k in range(N):
                for l in range(N):
                    if Gam[k, l] != 0:
                        c = Cn[l] @ r - r @ Cn[l]
                        s = s - 0.5*Gam[k, l]*(Cn[k] @ c - c @ Cn[k])
            return s + 0*r
        K = liou_of_map(Cn, f)
        out.append((lab, K.real))
        if lab in ('K_psd', 'K_nonpsd'):
            import scipy.linalg as sla
            out.append(('exp_' + lab, sla.expm(K.real)))
    out.append(('identity', np.eye(N)))
    out.append(('zero', np.zeros((N, N))))
    out.append(('depolarising', liou_of_map(Cn, lambda r: 0.3*r + 0.7*np.trace(r)*np.eye(d)/d).real))
    out.append(('random', rng.standard_normal((N, N))))
    out.append(('random_complex', rng.standard_normal((N, N)) + 1j*rng.standard_normal((N, N))))
    return out


# seeds of the case generators: one stream in the quick tier, three otherwise, shifted by VERIF_SEED
_S0 = 3*int(os.environ.get('VERIF_SEED', '0'))
SEEDS = [_S0] if os.environ.get('FFV_TIER', 'thorough') == 'quick' else [_S0, _S0 + 1, _S0 + 2]
DIMS = (2, 3) if os.environ.get('FFV_TIER', 'thorough') == 'quick' else (2, 3, 4)


def main():
    worst = {'projq': 0.0, 'projchoi': 0.0, 'cpverdict(atol)': 0.0, 'cpverdict(verdict)': 0,
             'end-to-end verdict': 0}
    reqs, refs = [], []
    for d in (1, 2, 3, 4, 5):
        Om = np.zeros(d*d)
        Om[::d+1] = 1/np.sqrt(d)
        Q = np.eye(d*d) - np.multiply.outer(Om, Om)
        reqs.append(f'projq {d}')
        refs.append(('projq', Q))
    n_cases = 0
    for seed in SEEDS:
        rng = np.random.default_rng(1000 + seed)
        for d in DIMS:
            for bl, C in bases(rng, d):
                Cn = np.array(C)
                N = len(Cn)
                Om = np.zeros(d*d)
                Om[::d+1] = 1/np.sqrt(d)
                Q = np.eye(d*d) - np.multiply.outer(Om, Om)
                for lab, S in superops(rng, d, Cn):
                    n_cases += 1
                    choi = so.liouville_to_choi(S, C)
                    pc = Q @ choi @ Q
                    reqs.append(f'projchoi {d} {N} {arr2bits(S.astype(complex))} {arr2bits(Cn)}')
                    refs.append(('projchoi', pc, (d, bl, lab)))
                    for fn, nm in ((so.liouville_is_CP, 'CP'), (so.liouville_is_cCP, 'cCP')):
                        for atol in (None, 0.0, 1e-12, 1e-3):
                            v, (D, _) = fn(S, C, return_eig=True, atol=atol)
                            used = (C._atol*np.maximum(1, np.abs(D).max()) if atol is None else atol)
                            reqs.append(f'cpverdict {len(D)} {f2b(C._atol)} '
                                        f'{"-" if atol is None else f2b(atol)} {arr2bits(D)}')
                            refs.append(('cpverdict', bool(v), used, (d, bl, lab, nm, atol)))
    outs = driver(reqs)
    bad = []
    e2e = []
    for rq, o, ref in zip(reqs, outs, refs):
        if not o.startswith('ok '):
            bad.append((ref[0], o))
            continue
        if ref[0] == 'projq':
            got = bits2arr(o[3:], ref[1].shape)
            dev = float(np.max(np.abs(got - ref[1]))) if got.size else 0.0
            worst['projq'] = max(worst['projq'], dev)
            if dev != 0.0:
                bad.append(('projq', dev))
        elif ref[0] == 'projchoi':
            got = bits2arr(o[3:], ref[1].shape, cplx=True)
            dev = float(np.max(np.abs(got - ref[1]))/max(1.0, np.max(np.abs(ref[1]))))
            worst['projchoi'] = max(worst['projchoi'], dev)
            if not dev <= 1e-12:
                bad.append(('projchoi', ref[2], dev))
            e2e.append((got, ref[2]))
        else:
            flag, tol = o[3:].split(' ')
            t = b2f(tol)
            dev = abs(t - ref[2])
            worst['cpverdict(atol)'] = max(worst['cpverdict(atol)'], dev)
            if (flag == '1') != ref[1]:
                worst['cpverdict(verdict)'] += 1
                bad.append(('cpverdict verdict', ref[3]))
            if dev != 0.0:
                bad.append(('cpverdict atol', ref[3], dev))
    # end to end for the cCP test: eigenvalues of the MODEL's matrix -> the model's verdict
    reqs2, refs2 = [], []
    k = 0
    for seed in SEEDS:
        rng = np.random.default_rng(1000 + seed)
        for d in DIMS:
            for bl, C in bases(rng, d):
                Cn = np.array(C)
                for lab, S in superops(rng, d, Cn):
                    got, tag = e2e[k]
                    k += 1
                    assert tag == (d, bl, lab)
                    v = bool(so.liouville_is_cCP(S, C))
                    D = nla.eigvalsh(got)     # like nla.eigh: lower triangle only
                    scale = C._atol*max(1.0, np.abs(D).max())
                    if abs(D.min() + scale) < 0.5*scale:
                        continue    # too close to the threshold to be decided by rounding
                    reqs2.append(f'cpverdict {len(D)} {f2b(C._atol)} - {arr2bits(D)}')
                    refs2.append((v, tag))
    outs2 = driver(reqs2)
    for o, (v, tag) in zip(outs2, refs2):
        if not o.startswith('ok ') or (o[3] == '1') != v:
            worst['end-to-end verdict'] += 1
            bad.append(('end-to-end', tag, o[:8], v))
    print(f'{n_cases} superoperators, {len(reqs)} + {len(reqs2)} driver requests')
    for k_, v_ in worst.items():
        print(f'{k_:22s} max rel deviation {float(v_):.3e}')
    if bad:
        print('DISAGREEMENTS:', bad[:10])
        return 1
    print('all components agree')
    return 0


if __name__ == '__main__':
    sys.exit(main())
