#!/venv/bin/python
"""Correspondence check for the Lean model of numeric._get_integrand and of the path selection of
its callers (FFVerif/Model/Integrand.lean; driver components `integrand`, `decaysel`, `infidtail`).

Runs the REAL package and the Lean driver on the same seeded random + special inputs and prints the
maximal relative deviation per component; exit status 0 iff all <= 1e-9 (discrete outputs exact).

  integrand/<src>/<which_pulse>/<which_FF>/ndim<k>
        numeric._get_integrand called directly, all 2 x 2 x 3 branch combinations for
        src = cm (one control matrix), pair ([left, right], the slices of the memory-parsimonious
        loop and general left widths), ff (filter function: the one computed by the package from the
        control matrix, arbitrary random arrays, and k:k+1 slices); subsets idx in permuted order
        (also with repetitions and empty), complex Hermitian 3-d spectra, d = 2, 3; zero / single
        frequency / unsorted grids.
  integrand/recorded
        every call of numeric._get_integrand made by calculate_decay_amplitudes / infidelity below
        (recorded by wrapping the function) replayed on the Lean model.
  callers/path            (discrete) the recorded calls are the ones the model's selection predicts:
        filter-function path iff the generalized (pulse-correlation) filter function is cached, one
        call resp. one per basis element (memory_parsimonious), [B[..., k:k+1, :], B] resp.
        F[..., k:k+1, :, :] as arguments.
  decay/<which>/<state>   calculate_decay_amplitudes vs `decaysel` on pulses with (a) nothing
        cached, (b) control matrix cached, (c) generalized filter function cached, (d) pulse
        correlation data (control matrices only / generalized pulse-correlation filter function),
        with and without memory_parsimonious.
  decay/python-path-spread   (reported, informative) the real package against itself across the
        cache states / memory_parsimonious for the same pulse.
  infidelity/ff-tail      infidelity vs `infidtail ff` fed with the recorded filter function.
  infidelity/cm-path      infidelity (traceless basis with identity element 0) vs `infidtail cm`
        (the control-matrix branch of _get_integrand on B[:, 1:]) — no caller takes this path; it
        is the numerical face of `infidelity_path_independent`.

  source/pin              (discrete) the statements of the numeric._get_integrand being run are the
        ones the model was written for (`Model.getIntegrandSource`).
  shape/<source>          (discrete) `integrandshape`: result shape resp. exception class of
        numeric._get_integrand on documented AND perturbed argument shapes (axis dropped / added,
        lengths changed to 0, 1, other; index out of range / empty; spectrum of rank 0 … 4,
        Hermitian or not; sources: cm, pair, ff, neither, both).

Usage: /venv/bin/python corr_c08integrand.py [n_random_cases] [seed]
"""
import ast
import inspect
import os
import re
import struct
import subprocess
import sys
import textwrap
import warnings

sys.path.insert(0, os.environ.get('FFV_REPO', '/repo'))
import numpy as np                                                  # noqa: E402

import filter_functions as ff                                       # noqa: E402
from filter_functions import numeric, util                          # noqa: E402

LEAN = os.environ.get('FFV_LEAN', '/verif/lean')
TOL = 1e-9
# numpy 1.26 only warns about an out-of-range index when the indexing result is empty (modelled)
warnings.filterwarnings('ignore', category=DeprecationWarning)


# ---- protocol helpers (copied from /verif/tools/ffv/common.py) ----------------------------------
def f2b(x):
    return str(struct.unpack('>Q', struct.pack('>d', float(x)))[0])


def b2f(s):
    return struct.unpack('>d', struct.pack('>Q', int(s)))[0]


def arr2bits(a):
    a = np.asarray(a)
    if np.iscomplexobj(a):
        flat = np.ascontiguousarray(a).astype(complex).view(float).ravel()
    else:
        flat = a.astype(float).ravel()
    return ','.join(f2b(v) for v in flat) if flat.size else '-'


def carr2bits(a):
    return arr2bits(np.asarray(a).astype(complex))


def bits2arr(s, shape=None):
    vals = np.array([b2f(t) for t in s.split(',') if t], dtype=float)
    return vals.reshape(shape) if shape is not None else vals


def driver(lines):
    inp = '\n'.join(lines) + '\n'
    p = subprocess.run(['lake', 'env', 'lean', '--run', 'Driver.lean'], cwd=LEAN, input=inp,
                       capture_output=True, text=True, timeout=3000)
    if p.returncode != 0:
        raise RuntimeError('lean driver failed: ' + (p.stderr or p.stdout)[-2000:])
    res = [ln for ln in p.stdout.split('\n') if ln.startswith('ok') or ln.startswith('err')]
    if len(res) != len(lines):
        raise RuntimeError(f'driver answered {len(res)} lines for {len(lines)} requests')
    return res


def rel_err(got, ref):
    if got is None or got.shape != ref.shape:
        return np.inf
    if ref.size == 0:
        return 0.0
    if not (np.all(np.isfinite(got)) and np.all(np.isfinite(ref))):
        return 0.0 if np.array_equal(np.isnan(got), np.isnan(ref)) and \
            np.array_equal(got[np.isfinite(got)], ref[np.isfinite(ref)]) else np.inf
    return float(np.max(np.abs(got - ref))/max(np.max(np.abs(ref)), 1e-300))


# ---- request builders ---------------------------------------------------------------------------
def idx_str(idx):
    return ','.join(str(int(j)) for j in idx) if len(idx) else '-'


def integrand_request(spectrum, idx, which_pulse, which_FF, control_matrix, filter_function):
    """the `integrand` request for one call of numeric._get_integrand (exactly one source)"""
    S = np.asarray(spectrum)
    nO = S.shape[-1]
    m = len(idx)
    corr = which_pulse == 'correlations'
    if control_matrix is not None:
        if isinstance(control_matrix, (list, tuple)):
            left, right = [np.asarray(c) for c in control_matrix]
            src, a2 = 'pair', carr2bits(right)
        else:
            left = right = np.asarray(control_matrix)
            src, a2 = 'cm', '-'
        G = right.shape[0] if corr else 1
        nA, N = right.shape[-3], right.shape[-2]
        Nl = left.shape[-2]
        a1 = carr2bits(left)
    else:
        F = np.asarray(filter_function)
        src, a1, a2 = 'ff', carr2bits(F), '-'
        G = F.shape[0] if corr else 1
        if which_FF == 'generalized':
            nA, Nl, N = F.shape[-5], F.shape[-3], F.shape[-2]
        else:
            nA, Nl, N = F.shape[-3], 1, 1
    return ' '.join(['integrand', src, which_pulse, which_FF, str(S.ndim), str(G), str(nA), str(Nl),
                     str(N), str(nO), str(m), idx_str(idx), a1, a2, carr2bits(S)])


def make_spectrum(rng, ndim, m, nO, special):
    if special == 'zero':
        base = np.zeros(nO)
    elif special == 'white':
        base = np.ones(nO)
    else:
        base = rng.uniform(0.2, 2.0, nO)
    if ndim == 1:
        return base.copy()
    if ndim == 2:
        return np.array([base*float(rng.uniform(0.5, 2)) for _ in range(m)]).reshape(m, nO)
    A = rng.standard_normal((m, m, nO)) + 1j*rng.standard_normal((m, m, nO))
    S = np.einsum('abo,cbo->aco', A, A.conj())*base
    return (S + S.conj().swapaxes(0, 1))/2


def crandn(rng, shape):
    return rng.standard_normal(shape) + 1j*rng.standard_normal(shape)


# ---- pulses -------------------------------------------------------------------------------------
PAULI = [np.array(mm, dtype=complex) for mm in
         ([[0, 1], [1, 0]], [[0, -1j], [1j, 0]], [[1, 0], [0, -1]])]


def herm(rng, d):
    a = crandn(rng, (d, d))
    return (a + a.conj().T)/2


def make_pulse_builder(rng, d, n_dt, n_nops, kind):
    ids = [f'B{i}' for i in range(n_nops)]
    dt = rng.uniform(0.2, 1.5, n_dt)
    if kind == 'degenerate':
        c_opers = [np.eye(d, dtype=complex)]
        c_coeffs = [np.zeros(n_dt)]
    elif kind == 'diagonal':
        c_opers = [np.diag(rng.integers(-2, 3, d)).astype(complex)]
        c_coeffs = [rng.integers(1, 3, n_dt).astype(float)]
        dt = rng.integers(1, 3, n_dt).astype(float)
    else:
        nc = int(rng.integers(1, 3))
        c_opers = [PAULI[i % 3] if d == 2 else herm(rng, d) for i in range(nc)]
        c_coeffs = [rng.standard_normal(n_dt) for _ in range(nc)]
    n_opers = [(PAULI[(i + 2) % 3] if (d == 2 and i < 2) else herm(rng, d)) for i in range(n_nops)]
    n_coeffs = [rng.uniform(0.5, 1.5, n_dt) for _ in range(n_nops)]
    H_c = [[o, c, f'A{i}'] for i, (o, c) in enumerate(zip(c_opers, c_coeffs))]
    H_n = [[o, c, i] for o, c, i in zip(n_opers, n_coeffs, ids)]
    basis = ff.Basis.pauli(1) if d == 2 else ff.Basis.ggm(d)

    def build():
        return ff.PulseSequence([[o.copy(), c.copy(), i] for o, c, i in H_c],
                                [[o.copy(), c.copy(), i] for o, c, i in H_n], dt.copy(), basis)
    return build, ids


class Recorder:
    """wraps numeric._get_integrand"""

    def __init__(self):
        self.calls = []
        self.orig = numeric._get_integrand

    def __enter__(self):
        def wrapped(spectrum, omega, idx, which_pulse, which_FF, control_matrix=None,
                    filter_function=None):
            out = self.orig(spectrum, omega, idx, which_pulse, which_FF,
                            control_matrix=control_matrix, filter_function=filter_function)
            cm = control_matrix
            if isinstance(cm, (list, tuple)):
                cm = [np.array(c) for c in cm]
            elif cm is not None:
                cm = np.array(cm)
            self.calls.append(dict(
                spectrum=np.array(spectrum), idx=np.array(idx), which_pulse=which_pulse,
                which_FF=which_FF, control_matrix=cm,
                filter_function=None if filter_function is None else np.array(filter_function),
                out=np.array(out)))
            return out
        numeric._get_integrand = wrapped
        return self

    def __exit__(self, *a):
        numeric._get_integrand = self.orig


class Collect:
    def __init__(self):
        self.lines, self.refs, self.comps = [], [], []
        self.discrete = {}
        self.mism = []
        self.info = {}

    def add(self, comp, line, ref):
        self.lines.append(line)
        self.refs.append(np.asarray(ref, dtype=float))
        self.comps.append(comp)

    def count(self, comp, ok, what=''):
        self.discrete[comp] = self.discrete.get(comp, 0) + (0 if ok else 1)
        if not ok:
            self.mism.append((comp, what))


# ---- part A: _get_integrand directly -------------------------------------------------------------
def direct_cases(rng, col, n):
    specials = ['random', 'random', 'white', 'zero']
    i = 0
    for rep in range(n):
        for wp in ('total', 'correlations'):
            for wf in ('fidelity', 'generalized'):
                for ndim in (1, 2, 3):
                    for src in ('cm', 'pair', 'ff'):
                        i += 1
                        d = 2 if (i + rep) % 3 else 3
                        N = d*d
                        G = int(rng.integers(1, 4))
                        nA = int(rng.integers(1, 4))
                        nO = int(rng.integers(1, 6))
                        # idx: all / permuted subset / with repetition / empty
                        r = (i + rep) % 8
                        if r == 0:
                            idx = np.arange(nA)
                        elif r == 7:
                            idx = rng.integers(0, nA, int(rng.integers(1, nA + 2)))
                        elif r == 6 and rep % 2:
                            idx = np.array([], dtype=int)
                        else:
                            idx = rng.permutation(nA)[:int(rng.integers(1, nA + 1))]
                        m = len(idx)
                        S = make_spectrum(rng, ndim, m, nO, specials[(i // 3) % 4])
                        lead = (G,) if wp == 'correlations' else ()
                        B = crandn(rng, lead + (nA, N, nO))
                        if (i // 5) % 6 == 0:
                            B[..., int(rng.integers(0, nA)), :, :] = 0      # a silent operator
                        omega = np.sort(rng.uniform(-3, 3, nO))
                        kw = {}
                        if src == 'cm':
                            kw['control_matrix'] = B
                        elif src == 'pair':
                            if wf == 'fidelity':
                                # equal widths (the einsum sums over k); an unrelated left factor
                                left = crandn(rng, B.shape)
                            else:
                                k = int(rng.integers(0, N))
                                left = B[..., k:k+1, :] if i % 2 else \
                                    crandn(rng, lead + (nA, int(rng.integers(1, 4)), nO))
                            kw['control_matrix'] = [left, B]
                        else:
                            mode = i % 3
                            if wp == 'total':
                                F = numeric.calculate_filter_function(B, wf)
                            else:
                                F = numeric.calculate_pulse_correlation_filter_function(B, wf)
                            if mode == 1:
                                F = crandn(rng, F.shape)                    # arbitrary array
                            elif mode == 2 and wf == 'generalized':
                                k = int(rng.integers(0, N))
                                F = F[..., k:k+1, :, :]                     # slice of the loop
                            kw['filter_function'] = F
                        ref = numeric._get_integrand(S, omega, idx, wp, wf, **kw)
                        line = integrand_request(S, idx, wp, wf, kw.get('control_matrix'),
                                                 kw.get('filter_function'))
                        col.add(f'integrand/{src}/{wp}/{wf}/ndim{ndim}', line, ref)


# ---- part B/C: the callers ------------------------------------------------------------------------
def replay(col, rec):
    for c in rec.calls:
        col.add('integrand/recorded',
                integrand_request(c['spectrum'], c['idx'], c['which_pulse'], c['which_FF'],
                                  c['control_matrix'], c['filter_function']), c['out'])


def check_path(col, rec, which, cached, pars, N, B, F, tag):
    """the recorded calls are the ones `decayAmplitudesSel…` / `decayAmplitudesCorrSel…` make"""
    calls = rec.calls
    ok = len(calls) == (N if pars else 1)
    for k, c in enumerate(calls):
        ok = ok and c['which_pulse'] == which and c['which_FF'] == 'generalized'
        if cached:
            ok = ok and c['control_matrix'] is None and c['filter_function'] is not None
            if ok:
                want = F[..., k:k+1, :, :] if pars else F
                ok = ok and np.array_equal(c['filter_function'], want)
        else:
            ok = ok and c['filter_function'] is None and c['control_matrix'] is not None
            if ok and pars:
                ok = ok and isinstance(c['control_matrix'], list) and \
                    np.array_equal(c['control_matrix'][0], B[..., k:k+1, :]) and \
                    np.array_equal(c['control_matrix'][1], B)
            elif ok:
                ok = ok and not isinstance(c['control_matrix'], list) and \
                    np.array_equal(c['control_matrix'], B)
    col.count('callers/path', ok, tag)


def caller_cases(rng, col, n):
    kinds = ['generic', 'generic', 'degenerate', 'diagonal']
    specials = ['random', 'random', 'white', 'zero']
    for i in range(n):
        d = 2 if i % 3 != 2 else 3
        n_dt = int(rng.integers(1, 4))
        n_nops = int(rng.integers(1, 4))
        kind = kinds[i % len(kinds)]
        ndim = 1 + i % 3
        build, ids = make_pulse_builder(rng, d, n_dt, n_nops, kind)
        nO = int(rng.integers(2, 6))
        omega = np.sort(rng.uniform(-5, 5, nO))
        if i % 5 == 0:
            omega[int(rng.integers(0, nO))] = 0.0
            omega = np.sort(omega)
        if i % 2 == 0:
            sel, idx = None, np.arange(n_nops)
        else:
            k = int(rng.integers(1, n_nops + 1))
            idx = rng.permutation(n_nops)[:k]
            sel = [ids[j] for j in idx]
        m = len(idx)
        S = make_spectrum(rng, ndim, m, nO, specials[i % 4])
        N = d*d
        base = ['decaysel']

        # ---- which='total' ---------------------------------------------------------------------
        results = {}
        for state in ('fresh', 'cm-cached', 'ffgen-cached', 'fffid-cached'):
            for pars in (False, True):
                p = build()
                if state == 'cm-cached':
                    p.cache_control_matrix(omega)
                elif state == 'ffgen-cached':
                    p.cache_filter_function(omega, which='generalized')
                elif state == 'fffid-cached':
                    p.cache_filter_function(omega, which='fidelity')
                cached = p.is_cached('filter_function_gen')
                assert cached == (state == 'ffgen-cached')
                F = np.array(p._filter_function_gen) if cached else None
                with Recorder() as rec:
                    ref = numeric.calculate_decay_amplitudes(p, S, omega, sel, which='total',
                                                             memory_parsimonious=pars)
                B = np.array(p.get_control_matrix(omega))
                tag = f'case {i} total {state} pars={pars} ndim={ndim}'
                check_path(col, rec, 'total', cached, pars, N, B, F, tag)
                replay(col, rec)
                col.add(f'decay/total/{state}', ' '.join(base + [
                    'total', '1' if cached else '0', '1' if pars else '0', str(ndim), '1',
                    str(n_nops), str(N), str(nO), str(m), idx_str(idx),
                    '-' if cached else carr2bits(B), carr2bits(F) if cached else '-',
                    carr2bits(S), arr2bits(omega)]), ref)
                results[(state, pars)] = np.asarray(ref, dtype=float)
        r0 = results[('fresh', False)]
        col.info['decay/python-path-spread'] = max(
            col.info.get('decay/python-path-spread', 0.0),
            max(rel_err(v, r0) for v in results.values()))

        # ---- infidelity (which='total') ----------------------------------------------------------
        for state in ('fresh', 'fffid-cached', 'ffgen-cached'):
            p = build()
            if state == 'fffid-cached':
                p.cache_filter_function(omega, which='fidelity')
            elif state == 'ffgen-cached':
                p.cache_filter_function(omega, which='generalized')
            with Recorder() as rec:
                ref = ff.infidelity(p, S, omega, n_oper_identifiers=sel, which='total')
            ok = len(rec.calls) == 1 and rec.calls[0]['control_matrix'] is None \
                and rec.calls[0]['which_FF'] == 'fidelity'
            col.count('callers/path', ok, f'case {i} infidelity {state}')
            replay(col, rec)
            Fh = rec.calls[0]['filter_function']
            col.add('infidelity/ff-tail', ' '.join([
                'infidtail', 'ff', str(ndim), str(d), str(n_nops), str(N), str(nO), str(m),
                idx_str(idx), carr2bits(Fh), carr2bits(S), arr2bits(omega)]), ref)
            B = np.array(p.get_control_matrix(omega))
            # Pauli / GGM bases: traceless, element 0 proportional to the identity
            col.add('infidelity/cm-path', ' '.join([
                'infidtail', 'cm', str(ndim), str(d), str(n_nops), str(N - 1), str(nO), str(m),
                idx_str(idx), carr2bits(B[:, 1:]), carr2bits(S), arr2bits(omega)]), ref)

        # ---- which='correlations' -----------------------------------------------------------------
        if i % 2 == 0 or n <= 4:
            p0 = build()
            n_dt2 = int(rng.integers(1, 3))
            dt2 = rng.uniform(0.2, 1.5, n_dt2)
            cc2 = [rng.standard_normal(n_dt2) for _ in p0.c_opers]
            nc2 = [rng.uniform(0.5, 1.5, n_dt2) for _ in p0.n_opers]

            def build2():
                # same control / noise operators and identifiers as the first part
                return ff.PulseSequence(
                    [[o.copy(), c.copy(), s_] for o, c, s_ in
                     zip(p0.c_opers, cc2, p0.c_oper_identifiers)],
                    [[o.copy(), c.copy(), s_] for o, c, s_ in
                     zip(p0.n_opers, nc2, p0.n_oper_identifiers)], dt2.copy(), p0.basis)
            for state in ('pc-cm', 'pc-ffgen'):
                for pars in (False, True):
                    p1, p2 = build(), build2()
                    pulses = [p1, p2] if i % 4 else [p1, p2, p1]
                    pc = ff.concatenate(pulses, calc_pulse_correlation_FF=True, omega=omega,
                                        which='generalized' if state == 'pc-ffgen' else 'fidelity')
                    G = len(pulses)
                    cached = pc.is_cached('filter_function_pc_gen')
                    assert cached == (state == 'pc-ffgen')
                    F = np.array(pc._filter_function_pc_gen) if cached else None
                    B = np.array(pc.get_pulse_correlation_control_matrix())
                    with Recorder() as rec:
                        ref = numeric.calculate_decay_amplitudes(pc, S, omega, sel,
                                                                 which='correlations',
                                                                 memory_parsimonious=pars)
                    tag = f'case {i} correlations {state} pars={pars} ndim={ndim}'
                    check_path(col, rec, 'correlations', cached, pars, N, B, F, tag)
                    replay(col, rec)
                    col.add(f'decay/correlations/{state}', ' '.join(base + [
                        'correlations', '1' if cached else '0', '1' if pars else '0', str(ndim),
                        str(G), str(n_nops), str(N), str(nO), str(m), idx_str(idx),
                        '-' if cached else carr2bits(B), carr2bits(F) if cached else '-',
                        carr2bits(S), arr2bits(omega)]), ref)
                    if not pars:
                        # total decay amplitudes of the concatenated pulse in the same cache state
                        with Recorder() as rec:
                            reft = numeric.calculate_decay_amplitudes(pc, S, omega, sel,
                                                                      which='total')
                        cg = pc.is_cached('filter_function_gen')
                        col.count('callers/path',
                                  len(rec.calls) == 1 and
                                  (rec.calls[0]['filter_function'] is not None) == cg, tag + ' total')
                        replay(col, rec)
                        col.info['decay/pc-sum-vs-total'] = max(
                            col.info.get('decay/pc-sum-vs-total', 0.0),
                            rel_err(np.asarray(ref).sum(axis=(0, 1)), np.asarray(reft)))
                        # pulse-correlation infidelities through the fidelity filter-function path
                        with Recorder() as rec:
                            refi = ff.infidelity(pc, S, omega, n_oper_identifiers=sel,
                                                 which='correlations')
                        replay(col, rec)
                        Fh = rec.calls[0]['filter_function']
                        for g in range(G):
                            for h in range(G):
                                col.add('infidelity/ff-tail', ' '.join([
                                    'infidtail', 'ff', str(ndim), str(d), str(n_nops), str(N),
                                    str(nO), str(m), idx_str(idx), carr2bits(Fh[g, h]),
                                    carr2bits(S), arr2bits(omega)]), np.asarray(refi)[g, h])


# ---- source pin ------------------------------------------------------------------------------------
def source_pin_ok():
    """the literal `Model.getIntegrandSource` equals the normalised statements of the
    numeric._get_integrand being run (same normalisation as tools/ffv/translate.py)"""
    fn = ast.parse(textwrap.dedent(inspect.getsource(numeric._get_integrand))).body[0]
    body = ' ; '.join(re.sub(r'\s+', ' ', ast.unparse(st)).strip() for st in fn.body
                      if not (isinstance(st, ast.Expr) and isinstance(st.value, ast.Constant)
                              and isinstance(st.value.value, str)))
    lean = '"' + body.replace('\\', '\\\\').replace('"', '\\"') + '"'
    txt = open(os.path.join(LEAN, 'FFVerif', 'Model', 'Integrand.lean')).read()
    return ('def getIntegrandSource : String := ' + lean + '\n') in txt


# ---- part D: shapes and exception classes ---------------------------------------------------------
def shape_str(sh):
    if sh is None:
        return '-'
    return ','.join(str(int(v)) for v in sh) if len(sh) else 's'


def perturb(rng, sh):
    sh = list(sh)
    r = int(rng.integers(0, 10))
    if r == 0 and len(sh):
        del sh[int(rng.integers(0, len(sh)))]
    elif r == 1:
        sh.insert(int(rng.integers(0, len(sh) + 1)), int(rng.integers(1, 4)))
    elif r == 2 and len(sh):
        sh[int(rng.integers(0, len(sh)))] = 1
    elif r == 3 and len(sh):
        j = int(rng.integers(0, len(sh)))
        sh[j] = sh[j] + int(rng.integers(1, 3))
    elif r == 4 and len(sh):
        sh[int(rng.integers(0, len(sh)))] = 0
    return tuple(sh)


def classify(exc):
    if isinstance(exc, np.exceptions.AxisError):
        return 'AxisError'
    if isinstance(exc, UnboundLocalError):
        return 'UnboundLocalError'
    if isinstance(exc, IndexError):
        return 'IndexError'
    if isinstance(exc, ValueError):
        return 'ValueError'
    return 'unexpected ' + type(exc).__name__


def shape_cases(rng, n):
    reqs, refs, tags = [], [], []
    for i in range(n):
        wp = ('total', 'correlations')[int(rng.integers(0, 2))]
        wf = ('fidelity', 'generalized')[int(rng.integers(0, 2))]
        G, nA, N, Nl = (int(v) for v in rng.integers(1, 4, 4))
        nO = int(rng.integers(1, 4))
        src = ('cm', 'cm', 'pair', 'ff', 'ff', 'neither', 'both')[int(rng.integers(0, 7))]
        if rng.random() < 0.15:
            idx = np.array([], dtype=int)
        else:
            idx = rng.integers(0, nA + (1 if rng.random() < 0.15 else 0), int(rng.integers(1, 4)))
        m = len(idx)
        ndim = int(rng.integers(1, 4))
        spec = {1: (nO,), 2: (m, nO), 3: (m, m, nO)}[ndim]
        rr = rng.random()
        if rr < 0.08:
            spec = ()
        elif rr < 0.16:
            spec = (m, m, m, nO)
        elif rr < 0.5:
            spec = perturb(rng, spec)
        lead = (G,) if wp == 'correlations' else ()
        lead2 = (G, G) if wp == 'correlations' else ()
        cm = lead + (nA, N, nO)
        cml = lead + (nA, Nl if wf == 'generalized' else N, nO)
        ffs = lead2 + (nA, nA) + ((Nl, N) if wf == 'generalized' else ()) + (nO,)
        if rng.random() < 0.45:
            cm = perturb(rng, cm)
        if rng.random() < 0.45:
            cml = perturb(rng, cml)
        if rng.random() < 0.45:
            ffs = perturb(rng, ffs)
        nOmega = nO if rng.random() < 0.8 else int(rng.integers(0, 4))
        # arrays
        S = crandn(rng, spec)
        herm = False
        try:
            tgt = (m,)*(len(spec) - 1) + (nOmega,)
            Sb = np.broadcast_to(S, tgt)
            if Sb.ndim == 3:
                if rng.random() < 0.7:
                    S = np.zeros(spec, dtype=complex) + (1.0 if rng.random() < 0.5 else 0.0)
                    Sb = np.broadcast_to(S, tgt)
                herm = bool(np.allclose(Sb, Sb.conj().swapaxes(0, 1)))
        except ValueError:
            pass
        kw = {}
        cmL = cmR = '-'
        fsh = '-'
        if src in ('cm', 'both'):
            kw['control_matrix'] = crandn(rng, cm)
            cmL, cmR = shape_str(cm), '='
        elif src == 'pair':
            kw['control_matrix'] = [crandn(rng, cml), crandn(rng, cm)]
            cmL, cmR = shape_str(cml), shape_str(cm)
        if src in ('ff', 'both'):
            kw['filter_function'] = crandn(rng, ffs)
            fsh = shape_str(ffs)
        try:
            out = numeric._get_integrand(S, np.zeros(nOmega), idx, wp, wf, **kw)
            ref = 'ok ' + shape_str(out.shape)
        except Exception as exc:  # noqa
            ref = 'err ' + classify(exc)
        reqs.append(' '.join(['integrandshape', wp, wf, str(nOmega), '1' if herm else '0',
                              idx_str(idx), shape_str(spec), cmL, cmR, fsh]))
        refs.append(ref)
        tags.append(src)
    return reqs, refs, tags


def main():
    quick = os.environ.get('FFV_TIER', 'thorough') == 'quick'
    n = int(sys.argv[1]) if len(sys.argv) > 1 else (4 if quick else 18)
    seed = int(sys.argv[2]) if len(sys.argv) > 2 else 20261001
    rng = np.random.default_rng([seed, int(os.environ.get('VERIF_SEED', '0'))])
    col = Collect()
    try:
        direct_cases(rng, col, max(2, n // 2))
        caller_cases(rng, col, n)
    except Exception as exc:  # noqa  (the real package raised where the model has a value)
        import traceback
        tb = traceback.extract_tb(exc.__traceback__)[-1]
        print(f'MISMATCH callers/exception {type(exc).__name__}: {exc} '
              f'({os.path.basename(tb.filename)}:{tb.lineno})')
        print('FAILED (1)')
        return 1
    col.count('source/pin', source_pin_ok(),
              'numeric._get_integrand differs from Model.getIntegrandSource')
    sreqs, srefs, stags = shape_cases(rng, 150 if quick else 1500)
    allouts = driver(col.lines + sreqs)
    outs, souts = allouts[:len(col.lines)], allouts[len(col.lines):]
    outcomes = {}
    for rq, o, ref, tg in zip(sreqs, souts, srefs, stags):
        col.count('shape/' + tg, o.strip() == ref, f'{rq} -> lean "{o.strip()}" python "{ref}"')
        outcomes[ref.split(' ')[1] if ref.startswith('err') else 'ok'] = \
            outcomes.get(ref.split(' ')[1] if ref.startswith('err') else 'ok', 0) + 1
    worst, count = {}, {}
    bad = []
    for comp, o, ref in zip(col.comps, outs, col.refs):
        if o.startswith('ok'):
            got = bits2arr(o[3:])
            got = got.reshape(ref.shape) if got.size == ref.size else None
        else:
            got = None
        err = rel_err(got, ref)
        worst[comp] = max(worst.get(comp, 0.0), err)
        count[comp] = count.get(comp, 0) + 1
        if not err <= TOL:
            bad.append((comp, err, o[:40]))
    print(f'cases: {n} (seed {seed}); requests: {len(col.lines)}')
    for comp in sorted(worst):
        print(f'{comp:46s} max rel deviation {worst[comp]:.3e}   [{count[comp]} requests]')
    for comp in sorted(col.discrete):
        print(f'{comp:46s} max rel deviation {float(col.discrete[comp]):.3e}   [mismatches]')
    for comp in sorted(col.info):
        print(f'# informative (real package vs itself): {comp} {col.info[comp]:.3e}')
    print('# shape cases by outcome of the real package:', dict(sorted(outcomes.items())))
    for comp, what in col.mism[:20]:
        print(f'MISMATCH {comp} {what}')
    for comp, err, o in bad[:20]:
        print(f'MISMATCH {comp} rel deviation {err:.3e} answer {o}')
    ok = not bad and not col.mism
    print('OK' if ok else f'FAILED ({len(bad) + len(col.mism)})')
    return 0 if ok else 1


if __name__ == '__main__':
    sys.exit(main())
