#!/venv/bin/python
"""Correspondence check for the Lean model of numeric.calculate_frequency_shifts
(FFVerif/Model/Shifts.lean, driver components `shifts` and `shiftsfs`).

Runs the REAL package and the Lean driver on the same seeded random + special inputs and prints the
maximal relative deviation per component; exit status 0 iff all <= 1e-9.

  shifts    : frequencyShifts1/2/3 fed with F2 = pulse.get_filter_function(omega, order=2) of the real
              package (fresh pulse, and pulse whose control-matrix intermediates were cached first)
              vs numeric.calculate_frequency_shifts on the same pulse object state;
  shiftsfs  : the whole path diagonalised pulse -> secondOrderFFFromScratch -> frequencyShifts
              vs numeric.calculate_frequency_shifts on a fresh pulse.

Usage: /venv/bin/python corr_c10shifts.py [n_random_cases] [seed]
"""
import os
import re
import struct
import subprocess
import sys

sys.path.insert(0, os.environ.get('FFV_REPO', '/repo'))
import numpy as np                                                  # noqa: E402

import filter_functions as ff                                       # noqa: E402
from filter_functions import numeric, util                          # noqa: E402

HERE = os.path.dirname(os.path.abspath(__file__))
LEAN = os.environ.get('FFV_LEAN', '/verif/lean')
TOL = 1e-9


# ---- protocol helpers (copied from /verif/tools/ffv/common.py) ----------------------------------
def f2b(x):
    return str(struct.unpack('>Q', struct.pack('>d', float(x)))[0])


def b2f(s):
    return struct.unpack('>d', struct.pack('>Q', int(s)))[0]


def arr2bits(a):
    a = np.asarray(a)
    if np.iscomplexobj(a):
        flat = np.ascontiguousarray(a).astype(complex).view(float).ravel()
    else:
        flat = a.astype(float).ravel()
    return ','.join(f2b(v) for v in flat) if flat.size else '-'


def carr2bits(a):
    return arr2bits(np.asarray(a).astype(complex))


def bits2arr(s, shape=None):
    vals = np.array([b2f(t) for t in s.split(',') if t], dtype=float)
    return vals.reshape(shape) if shape is not None else vals


def driver(lines):
    inp = '\n'.join(lines) + '\n'
    p = subprocess.run(['lake', 'env', 'lean', '--run', 'Driver.lean'], cwd=LEAN, input=inp,
                       capture_output=True, text=True, timeout=7200)
    if p.returncode != 0:
        raise RuntimeError('lean driver failed: ' + (p.stderr or p.stdout)[-2000:])
    res = [ln for ln in p.stdout.split('\n') if ln.startswith('ok') or ln.startswith('err')]
    if len(res) != len(lines):
        raise RuntimeError(f'driver answered {len(res)} lines for {len(lines)} requests')
    return res


def mask_from_gen():
    txt = open(os.path.join(LEAN, 'FFVerif', 'Gen', 'Constants.lean')).read()
    k = re.search(r'def firstOrderMaskKind : FFVerif.MaskKind := \.(\w+)', txt)
    t = re.search(r'def firstOrderMaskThr .*? := ([-0-9.e]+)', txt)
    return (k.group(1) if k else 'absTimesDtGt'), (float(t.group(1)) if t else 1e-7)


# ---- pulses -------------------------------------------------------------------------------------
PAULI = [np.array(m, dtype=complex) for m in
         ([[0, 1], [1, 0]], [[0, -1j], [1j, 0]], [[1, 0], [0, -1]])]


def herm(rng, d, integer=False):
    if integer:
        a = rng.integers(-2, 3, (d, d)) + 1j*rng.integers(-2, 3, (d, d))
    else:
        a = rng.standard_normal((d, d)) + 1j*rng.standard_normal((d, d))
    return (a + a.conj().T)/2


def make_pulse(rng, d, n_dt, n_nops, kind):
    """kind: generic | degenerate (no control: all levels equal) | diagonal (integer levels, so that
    integer frequencies are exactly resonant) | zero_dt | neg_sens"""
    ids = [f'B{i}' for i in range(n_nops)]
    dt = rng.uniform(0.2, 1.5, n_dt)
    if kind == 'zero_dt' and n_dt > 1:
        dt[int(rng.integers(0, n_dt))] = 0.0
    if kind == 'degenerate':
        c_opers = [np.eye(d, dtype=complex)]
        c_coeffs = [np.zeros(n_dt)]
    elif kind == 'diagonal':
        c_opers = [np.diag(rng.integers(-2, 3, d)).astype(complex)]
        c_coeffs = [rng.integers(1, 3, n_dt).astype(float)]
        dt = rng.integers(1, 3, n_dt).astype(float)
    else:
        nc = int(rng.integers(1, 3))
        c_opers = [PAULI[i % 3] if d == 2 else herm(rng, d) for i in range(nc)]
        c_coeffs = [rng.standard_normal(n_dt) for _ in range(nc)]
    n_opers = [(PAULI[(i + 2) % 3] if (d == 2 and i < 2) else herm(rng, d)) for i in range(n_nops)]
    n_coeffs = [rng.uniform(0.5, 1.5, n_dt) for _ in range(n_nops)]
    if kind == 'neg_sens':
        n_coeffs[0] = -n_coeffs[0]
    H_c = [[o, c, f'A{i}'] for i, (o, c) in enumerate(zip(c_opers, c_coeffs))]
    H_n = [[o, c, i] for o, c, i in zip(n_opers, n_coeffs, ids)]
    basis = ff.Basis.pauli(1) if d == 2 else ff.Basis.ggm(d)

    def build():
        return ff.PulseSequence([[o.copy(), c.copy(), i] for o, c, i in H_c],
                                [[o.copy(), c.copy(), i] for o, c, i in H_n], dt.copy(), basis)
    return build, ids


def make_spectrum(rng, shape, m, omega, special):
    nO = len(omega)
    if special == 'zero':
        base = np.zeros(nO)
    elif special == 'white':
        base = np.ones(nO)
    else:
        base = 1/(1 + omega**2)
    if shape == 1:
        return base*float(rng.uniform(0.5, 2)) if special != 'zero' else base
    if shape == 2:
        return np.array([base*float(rng.uniform(0.5, 2)) for _ in range(m)])
    # cross-spectral matrix, Hermitian along the first two axes at every frequency
    A = rng.standard_normal((m, m, nO)) + 1j*rng.standard_normal((m, m, nO))
    S = np.einsum('abo,cbo->aco', A, A.conj())*base
    S = (S + S.conj().swapaxes(0, 1))/2
    return S


def rel_err(got, ref):
    if got is None or got.shape != ref.shape:
        return np.inf
    if not (np.all(np.isfinite(got)) and np.all(np.isfinite(ref))):
        return 0.0 if np.array_equal(np.isnan(got), np.isnan(ref)) and \
            np.array_equal(got[np.isfinite(got)], ref[np.isfinite(ref)]) else np.inf
    if ref.size == 0:
        return 0.0
    return float(np.max(np.abs(got - ref))/max(np.max(np.abs(ref)), 1e-300))


def main():
    quick = os.environ.get('FFV_TIER', 'thorough') == 'quick'
    n = int(sys.argv[1]) if len(sys.argv) > 1 else (16 if quick else 48)
    seed = int(sys.argv[2]) if len(sys.argv) > 2 else 20261001
    rng = np.random.default_rng([seed, int(os.environ.get('VERIF_SEED', '0'))])
    kind_m, thr = mask_from_gen()
    lines, refs, tags = [], [], []
    kinds = ['generic', 'generic', 'degenerate', 'diagonal', 'zero_dt', 'neg_sens']
    specials = ['lorentz', 'lorentz', 'white', 'zero']
    for i in range(n):
        d = 2 if i % 3 != 2 else 3
        n_dt = int(rng.integers(1, 5 if d == 2 else 4))
        n_nops = int(rng.integers(1, 4))
        kind = kinds[i % len(kinds)]
        shape = 1 + i % 3 if i % 7 else int(rng.integers(1, 4))
        build, ids = make_pulse(rng, d, n_dt, n_nops, kind)
        # frequency grid: sorted two-sided; resonant / zero / single point / unsorted variants
        nO = int(rng.integers(2, 7))
        if kind == 'diagonal':
            omega = np.sort(rng.choice(np.arange(-6, 7), nO, replace=False)).astype(float)
        else:
            omega = np.sort(rng.uniform(-6, 6, nO))
            if i % 5 == 0:
                omega[int(rng.integers(0, nO))] = 0.0
                omega = np.sort(omega)
        if i % 11 == 10:
            omega = omega[:1]                       # a single point: every integral is 0
        if i % 13 == 12:
            omega = rng.permutation(omega)          # unsorted grid: np.diff has negative entries
        nO = len(omega)
        # identifier subset (None = all; otherwise a random non-empty selection in random order)
        if i % 2 == 0:
            sel = None
            idx = np.arange(n_nops)
        else:
            k = int(rng.integers(1, n_nops + 1))
            idx = rng.permutation(n_nops)[:k]
            sel = [ids[j] for j in idx]
        m = len(idx)
        S = make_spectrum(rng, shape, m, omega, specials[i % len(specials)])
        # --- real package: fresh pulse / pulse with cached intermediates
        p_fresh = build()
        D_fresh = numeric.calculate_frequency_shifts(p_fresh, S, omega, sel)
        F2_fresh = p_fresh.get_filter_function(omega, order=2)
        p_cached = build()
        p_cached.cache_control_matrix(omega, cache_intermediates=True)
        assert p_cached._intermediates, 'intermediates were not cached'
        D_cached = numeric.calculate_frequency_shifts(p_cached, S, omega, sel)
        F2_cached = p_cached.get_filter_function(omega, order=2)
        got_idx = util.get_indices_from_identifiers(p_fresh.n_oper_identifiers, sel)
        assert np.array_equal(np.asarray(got_idx), idx), (got_idx, idx)
        N = len(p_fresh.basis)
        idx_s = ','.join(str(int(j)) for j in idx)
        for tag, F2, D in (('shifts/fresh', F2_fresh, D_fresh), ('shifts/cached', F2_cached, D_cached)):
            lines.append(' '.join(['shifts', str(shape), str(n_nops), str(N), str(nO), str(m), idx_s,
                                   carr2bits(F2), carr2bits(S), arr2bits(omega)]))
            refs.append(np.asarray(D, dtype=float))
            tags.append((tag, i, d, shape, kind, sel is not None))
        q = build()
        q.diagonalize()
        lines.append(' '.join([
            'shiftsfs', str(shape), kind_m, f2b(thr), str(len(q.dt)), str(q.d), str(nO),
            str(n_nops), str(N), str(m), idx_s, arr2bits(q.eigvals), carr2bits(q.eigvecs),
            carr2bits(q.propagators[:-1]), arr2bits(omega), carr2bits(np.array(q.basis)),
            carr2bits(q.n_opers), arr2bits(q.n_coeffs), arr2bits(q.dt), arr2bits(q.t[:-1]),
            carr2bits(S)]))
        refs.append(np.asarray(D_fresh, dtype=float))
        tags.append(('shiftsfs', i, d, shape, kind, sel is not None))
        # the package itself: fresh vs cached (property C10, measured, not part of the verdict of
        # the model correspondence but reported)
        tags.append(('python/fresh-vs-cached', i, d, shape, kind, sel is not None))
        lines.append(None)
        refs.append((np.asarray(D_fresh, dtype=float), np.asarray(D_cached, dtype=float)))
    reqs = [ln for ln in lines if ln is not None]
    outs = iter(driver(reqs))
    worst = {}
    bad = []
    seen = {}
    for ln, ref, tag in zip(lines, refs, tags):
        if ln is None:
            err = rel_err(ref[1], ref[0])
        else:
            o = next(outs)
            got = bits2arr(o[3:], ref.shape) if o.startswith('ok') and ref.size else (
                np.zeros(ref.shape) if o.startswith('ok') else None)
            err = rel_err(got, ref)
        comp = tag[0]
        worst[comp] = max(worst.get(comp, 0.0), err)
        seen.setdefault(comp, set()).add(tag[2:])
        if not err <= TOL:
            bad.append((tag, err))
    print(f'cases: {n} (seed {seed}); guard of _first_order_integral: {kind_m} {thr}')
    for comp in sorted(worst):
        cov = seen[comp]
        print(f'{comp:24s} max rel deviation {worst[comp]:.3e}   '
              f'[d: {sorted({c[0] for c in cov})}, spectrum ndim: {sorted({c[1] for c in cov})}, '
              f'kinds: {sorted({c[2] for c in cov})}, subsets: {sorted({c[3] for c in cov})}]')
    for tag, err in bad[:10]:
        print('  FAIL', tag, f'{err:.3e}')
    ok = not bad
    print('OK' if ok else f'FAILED ({len(bad)})')
    return 0 if ok else 1


if __name__ == '__main__':
    sys.exit(main())
