#!/venv/bin/python
"""Correspondence of the Lean model FFVerif/Model/Tile.lean (driver components `tileper`, `tileham`,
`concattp`, `concatliou`, `concatdef`) with the real package:

  * concatenate_periodic(pulse, G): dt, c_coeffs, n_coeffs, stored _tau, t, tau (both getter branches),
    total_propagator (= matrix_power), total_propagator_liouville (lazy getter), and the same
    quantities of the FROM-SCRATCH pulse built from the tiled Hamiltonian (own eigh run);
  * concatenate(pulses): total_propagator (mdot of the reversed list), dt, t, tau, the cumulative
    Liouville propagators L, and the from-scratch pulse of the concatenated Hamiltonian.

G = 1..7, d = 2, 3, 4; random pulses and pulses whose total propagator is the identity / degenerate.
Prints the maximal relative deviation per component; exit 0 iff all <= 1e-9 (discrete / copied
outputs exact)."""
import os
import struct
import subprocess
import sys

sys.path.insert(0, os.environ.get('FFV_REPO', '/repo'))
import numpy as np  # noqa: E402
from numpy import linalg as nla  # noqa: E402

import filter_functions as ff  # noqa: E402
from filter_functions import util  # noqa: E402
from filter_functions.superoperator import liouville_representation  # noqa: E402

LEAN = os.environ.get('FFV_LEAN', '/verif/lean')
TOL = 1e-9


def f2b(x):
    return str(struct.unpack('>Q', struct.pack('>d', float(x)))[0])


def b2f(s):
    return struct.unpack('>d', struct.pack('>Q', int(s)))[0]


def arr2bits(a):
    a = np.asarray(a)
    if a.size == 0:
        return '-'
    if np.iscomplexobj(a):
        flat = np.ascontiguousarray(a).astype(complex).view(float).ravel()
    else:
        flat = a.astype(float).ravel()
    return ','.join(f2b(v) for v in flat)


def bits2arr(s):
    return np.array([b2f(t) for t in s.split(',') if t], dtype=float)


def driver(lines):
    p = subprocess.run(['lake', 'env', 'lean', '--run', 'Driver.lean'], cwd=LEAN,
                       input='\n'.join(lines) + '\n', capture_output=True, text=True, timeout=3600)
    if p.returncode != 0:
        raise RuntimeError('lean driver failed: ' + (p.stderr or p.stdout)[-2000:])
    res = [ln for ln in p.stdout.split('\n') if ln.startswith('ok') or ln.startswith('err')]
    if len(res) != len(lines):
        raise RuntimeError(f'driver answered {len(res)} lines for {len(lines)} requests')
    return res


class Take:
    """split a flat float array into real / complex blocks"""

    def __init__(self, a):
        self.a, self.i = a, 0

    def real(self, *shape):
        n = int(np.prod(shape)) if shape else 1
        r = self.a[self.i:self.i + n]
        self.i += n
        return r.reshape(shape) if shape else r[0]

    def cplx(self, *shape):
        n = 2*int(np.prod(shape))
        r = self.a[self.i:self.i + n].view(complex)
        self.i += n
        return r.reshape(shape)

    def done(self):
        return self.i == len(self.a)


def rel(a, b):
    a, b = np.asarray(a), np.asarray(b)
    if a.shape != b.shape:
        return np.inf
    if a.size == 0:
        return 0.0
    return float(np.max(np.abs(a - b)) / max(1.0, np.max(np.abs(b))))


# --------------------------------------------------------------------------------------------------
# pulses
# --------------------------------------------------------------------------------------------------
def rand_herm(rng, d):
    a = rng.standard_normal((d, d)) + 1j*rng.standard_normal((d, d))
    return (a + a.conj().T)/2


def rand_unitary(rng, d):
    q, r = nla.qr(rng.standard_normal((d, d)) + 1j*rng.standard_normal((d, d)))
    return q*(np.diag(r)/np.abs(np.diag(r)))


def make_basis(rng, d, kind):
    if kind == 'ggm':
        return ff.Basis.ggm(d)
    if kind == 'pauli' and d in (2, 4):
        return ff.Basis.pauli(int(np.log2(d)))
    # random unitary rotation of the GGM basis: complete, orthonormal, Hermitian
    U = rand_unitary(rng, d)
    g = ff.Basis.ggm(d)
    return ff.Basis(np.array([U @ e @ U.conj().T for e in np.asarray(g)]), traceless=False)


def rand_pulse_desc(rng, d, n_dt, n_c, n_n, special):
    """special: None | 'identity' | 'degenerate' | 'identity_multi' | 'zero'"""
    c_opers = [rand_herm(rng, d) for _ in range(n_c)]
    n_opers = [rand_herm(rng, d) for _ in range(n_n)]
    c_coeffs = rng.standard_normal((n_c, n_dt))
    n_coeffs = np.abs(rng.standard_normal((n_n, n_dt))) + 0.1
    dt = rng.uniform(0.1, 1.5, n_dt)
    if special == 'zero':
        c_coeffs = np.zeros((n_c, n_dt))
    elif special in ('identity', 'degenerate', 'identity_multi'):
        # one operator with integer spectrum, amplitude a, n_dt segments of total duration T with
        # a*T = 2 pi (identity) resp. a*T = pi with spectrum in {0, 2, 4}: Q = diag(+1) ... degenerate
        V = rand_unitary(rng, d)
        if special == 'degenerate':
            spec = np.array([0, 1] + [1]*(d - 2))[:d]  # Q = V diag(1, -1, -1, ..) V^+ at a T = pi
            phase = np.pi
        else:
            spec = rng.integers(-2, 3, d)
            phase = 2*np.pi
        A = (V*spec) @ V.conj().T
        A = (A + A.conj().T)/2
        c_opers = [A]
        a = rng.uniform(0.5, 2.0)
        c_coeffs = np.full((1, n_dt), a)
        w = rng.uniform(0.2, 1.0, n_dt)
        dt = w/w.sum()*phase/a
        if special == 'identity_multi' and n_dt >= 2:
            # echo-like: second half undoes the first half with another operator; total = identity
            B = rand_herm(rng, d)
            h = n_dt//2
            c_opers = [B]
            c_coeffs = np.concatenate([np.full(h, a), np.full(n_dt - h, -a)])[None, :]
            w1 = rng.uniform(0.2, 1.0, h)
            w2 = rng.uniform(0.2, 1.0, n_dt - h)
            dt = np.concatenate([w1/w1.sum(), w2/w2.sum()])
    return dict(c_opers=c_opers, n_opers=n_opers, c_coeffs=c_coeffs, n_coeffs=n_coeffs, dt=dt, d=d)


def build(desc, basis):
    H_c = [[op, co, f'C{i}'] for i, (op, co) in enumerate(zip(desc['c_opers'], desc['c_coeffs']))]
    H_n = [[op, co, f'N{i}'] for i, (op, co) in enumerate(zip(desc['n_opers'], desc['n_coeffs']))]
    return ff.PulseSequence(H_c, H_n, desc['dt'], basis=basis)


def tiled(desc, G):
    t = dict(desc)
    t['c_coeffs'] = np.tile(desc['c_coeffs'], (1, G))
    t['n_coeffs'] = np.tile(desc['n_coeffs'], (1, G))
    t['dt'] = np.tile(desc['dt'], G)
    return t


# --------------------------------------------------------------------------------------------------
def main():
    seed = int(sys.argv[1]) if len(sys.argv) > 1 else 20261001
    rng = np.random.default_rng([seed, int(os.environ.get('VERIF_SEED', '0'))])
    dev = {}
    exact_fail = []

    def note(k, v):
        dev[k] = max(dev.get(k, 0.0), v)

    # ---------------- concatenate_periodic ----------------
    cases = []
    for d in (2, 3, 4):
        for special in (None, 'identity', 'degenerate', 'identity_multi', 'zero'):
            for G in range(1, 8):
                n_dt = int(rng.integers(1, 5)) if special != 'identity_multi' else int(rng.integers(2, 6))
                cases.append((d, special, G, n_dt, rng.choice(['ggm', 'pauli', 'rot']),
                              bool(rng.integers(0, 2))))
    lines, ctx = [], []
    for d, special, G, n_dt, bk, read_t in cases:
        desc = rand_pulse_desc(rng, d, n_dt, int(rng.integers(1, 4)), int(rng.integers(1, 3)), special)
        basis = make_basis(rng, d, bk)
        p = build(desc, basis)
        if read_t:
            p.t  # makes pulse.tau = t[-1] instead of dt.sum()
        omega = np.array([0.0, 2*np.pi/p.tau, 1.3, 7.1])
        p.cache_control_matrix(omega)
        per = ff.concatenate_periodic(p, G)
        # the stored `_tau = repeats*pulse.tau` survives only on the early-return path (no cached
        # control matrix): `cache_total_phases` reads the getter `tau`, which overwrites `_tau` with
        # `dt.sum()` / `t[-1]` of the tiled durations
        p0 = build(desc, basis)
        if read_t:
            p0.t
        stored_tau = ff.concatenate_periodic(p0, G)._tau
        Q = p.total_propagator
        cast = '1' if basis.isherm else '0'
        N = len(basis)
        lines.append(' '.join(['tileper', str(G), str(len(p.c_opers)), str(len(p.n_opers)),
                               str(n_dt), str(d), str(N), cast, arr2bits(p.c_coeffs),
                               arr2bits(p.n_coeffs), arr2bits(p.dt), f2b(p.tau), arr2bits(np.asarray(Q, dtype=complex)),
                               arr2bits(np.asarray(basis).astype(complex))]))
        lines.append(' '.join(['tileham', str(G), str(len(p.c_opers)), str(n_dt), str(d),
                               arr2bits(np.asarray(p.c_opers).astype(complex)), arr2bits(p.c_coeffs)]))
        ctx.append((d, special, G, n_dt, p, per, stored_tau, desc, basis))
    outs = driver(lines)
    for k, (d, special, G, n_dt, p, per, stored_tau, desc, basis) in enumerate(ctx):
        o1, o2 = outs[2*k], outs[2*k + 1]
        assert o1.startswith('ok ') and o2.startswith('ok '), (o1[:50], o2[:50])
        T = Take(bits2arr(o1[3:]))
        nC, nA, N, M = len(p.c_opers), len(p.n_opers), len(basis), G*n_dt
        m_dt = T.real(M)
        m_cc = T.real(nC, M)
        m_nc = T.real(nA, M)
        m_tau = T.real()
        m_t = T.real(M + 1)
        m_tlast = T.real()
        m_tsum = T.real()
        m_Q = T.cplx(d, d)
        m_L = T.cplx(N, N)
        m_Lpow = T.cplx(N, N)
        m_Qpow = T.cplx(d, d)
        assert T.done()
        m_H = Take(bits2arr(o2[3:])).cplx(M, d, d)
        tag = f'periodic[{special or "random"}]'
        # exact (copied / tiled data, stored tau)
        for name, a, b in (('dt', m_dt, per.dt), ('c_coeffs', m_cc, per.c_coeffs),
                           ('n_coeffs', m_nc, per.n_coeffs), ('stored_tau', m_tau, stored_tau)):
            if not np.array_equal(np.asarray(a), np.asarray(b)):
                exact_fail.append((tag, name, d, G))
        # vs what concatenate_periodic returns
        note(tag + ' total_propagator vs concatenate_periodic', rel(m_Q, per.total_propagator))
        note(tag + ' total_propagator_liouville vs concatenate_periodic',
             rel(m_L, per.total_propagator_liouville))
        note(tag + ' L^G vs concatenate_periodic', rel(m_Lpow, per.total_propagator_liouville))
        note(tag + ' Mat.pow Q G vs matrix_power', rel(m_Qpow, nla.matrix_power(p.total_propagator, G)))
        per_t = np.concatenate(([0], per.dt.cumsum()))
        note(tag + ' t vs concatenate_periodic', rel(m_t, per_t))
        note(tag + ' tau(stored) vs t[-1]', rel(m_tau, per_t[-1]))
        note(tag + ' tau(t[-1]) vs getter', rel(m_tlast, per.tau))
        note(tag + ' tau(dt.sum()) vs getter', rel(m_tsum, per.dt.sum()))
        # vs the from-scratch pulse of the tiled Hamiltonian (own diagonalization)
        fs = build(tiled(desc, G), basis)
        fs.diagonalize()
        Hfs = np.einsum('ijk,il->ljk', fs.c_opers, fs.c_coeffs)
        note(tag + ' hamiltonian vs from scratch', rel(m_H, Hfs))
        note(tag + ' total_propagator vs from scratch', rel(m_Q, fs.total_propagator))
        note(tag + ' total_propagator_liouville vs from scratch',
             rel(m_L, fs.total_propagator_liouville))
        note(tag + ' t vs from scratch', rel(m_t, fs.t))
        note(tag + ' tau vs from scratch', rel(m_tau, fs.tau))
        # whatever the result of concatenate_periodic carries or computes lazily for its own segments:
        # cumulative propagators and eigen-decomposition of the tiled pulse (read LAST: the getters may
        # diagonalize the result)
        note(tag + ' result.propagators vs from scratch', rel(per.propagators, fs.propagators))
        Hper = np.einsum('ijk,il->ljk', per.c_opers, per.c_coeffs)
        res = max(float(np.max(np.abs(Hper[g] @ per.eigvecs[g] - per.eigvecs[g]*per.eigvals[g][None, :])))
                  for g in range(len(per.dt)))
        note(tag + ' result eigen-decomposition residual', res/max(1.0, float(np.max(np.abs(Hper)))))
        # the statements of propagators_tile / times_tile on the real package
        Qn = p.total_propagator
        for kk in range(G):
            for j in range(n_dt + 1):
                note(tag + ' Q[k n + j] = Q_j Q_n^k (real package)',
                     rel(fs.propagators[kk*n_dt + j], p.propagators[j] @ nla.matrix_power(Qn, kk)))
                note(tag + ' t[k n + j] = k tau + t_j (real package)',
                     rel(fs.t[kk*n_dt + j], kk*p.tau + p.t[j]))
        if special in ('identity', 'identity_multi', 'zero'):
            note(tag + ' Q_n = 1', rel(Qn, np.eye(d)))
            note(tag + ' Q_{k n} = 1 (from scratch)',
                 max(rel(fs.propagators[kk*n_dt], np.eye(d)) for kk in range(G + 1)))

    # ---------------- concatenate ----------------
    lines, ctx = [], []
    for d in (2, 3, 4):
        for P in (1, 2, 3, 5):
            for rep in range(3):
                basis = make_basis(rng, d, rng.choice(['ggm', 'pauli', 'rot']))
                n_c, n_n = int(rng.integers(1, 3)), int(rng.integers(1, 3))
                c_opers = [rand_herm(rng, d) for _ in range(n_c)]
                n_opers = [rand_herm(rng, d) for _ in range(n_n)]
                descs, pulses = [], []
                for q in range(P):
                    sp = [None, 'identity', 'degenerate', 'zero'][int(rng.integers(0, 4))]
                    de = rand_pulse_desc(rng, d, int(rng.integers(1, 5)), n_c, n_n, sp)
                    if sp in (None, 'zero'):
                        de['c_opers'], de['n_opers'] = c_opers, n_opers
                    else:
                        de['n_opers'] = n_opers
                    descs.append(de)
                    pl = build(de, basis)
                    if rng.integers(0, 2):
                        pl.t
                    pl.diagonalize()
                    pulses.append(pl)
                omega = np.array([0.0, 0.7, 3.1])
                new = ff.concatenate(pulses, calc_filter_function=True, omega=omega)
                Qs = np.array([pl.total_propagator for pl in pulses])
                Ls = np.array([pl.total_propagator_liouville for pl in pulses]).astype(complex)
                lines.append(f'concattp {P} {d} {arr2bits(Qs.astype(complex))}')
                lines.append(f'concatliou {P} {len(basis)} {arr2bits(Ls)}')
                lines.append(' '.join(['concatdef', str(P), ','.join(str(len(pl.dt)) for pl in pulses),
                                       arr2bits(np.concatenate([pl.dt for pl in pulses])),
                                       arr2bits([pl.tau for pl in pulses])]))
                ctx.append((d, P, pulses, new, basis, Ls))
    lines.append('concattp 0 2 -')
    outs = driver(lines)
    if outs[-1] != 'err empty':
        exact_fail.append(('concatenate', 'mdot of an empty list', outs[-1][:40]))
    try:
        util.mdot([])
        exact_fail.append(('concatenate', 'real mdot([]) did not raise'))
    except TypeError:
        pass
    for k, (d, P, pulses, new, basis, Ls) in enumerate(ctx):
        o1, o2, o3 = outs[3*k], outs[3*k + 1], outs[3*k + 2]
        assert o1.startswith('ok ') and o2.startswith('ok ') and o3.startswith('ok ')
        N = len(basis)
        m_Q = Take(bits2arr(o1[3:])).cplx(d, d)
        m_L = Take(bits2arr(o2[3:])).cplx(P, N, N)
        M = sum(len(pl.dt) for pl in pulses)
        T = Take(bits2arr(o3[3:]))
        m_dt, m_t, m_tlast, m_tausum = T.real(M), T.real(M + 1), T.real(), T.real()
        assert T.done()
        if not np.array_equal(m_dt, new.dt):
            exact_fail.append(('concatenate', 'dt', d, P))
        stored = sum(pl.tau for pl in pulses)
        if m_tausum != stored:
            exact_fail.append(('concatenate', 'sum of tau', d, P, m_tausum, stored))
        note('concatenate total_propagator vs concatenate', rel(m_Q, new.total_propagator))
        note('concatenate total_propagator_liouville = liouville(mdot)',
             rel(liouville_representation(m_Q, basis), new.total_propagator_liouville))
        L = np.empty((P, N, N))
        L[0] = np.identity(N)
        for i in range(1, P):
            L[i] = pulses[i-1].total_propagator_liouville @ L[i-1]
        note('concatenate L (cumulative Liouville propagators)', rel(m_L, L))
        note('concatenate t', rel(m_t, np.concatenate(([0], new.dt.cumsum()))))
        note('concatenate tau(sum) vs t[-1]', rel(m_tausum, m_tlast))
        # from scratch
        fs = ff.PulseSequence(list(zip(new.c_opers, new.c_coeffs, new.c_oper_identifiers)),
                              list(zip(new.n_opers, new.n_coeffs, new.n_oper_identifiers)),
                              new.dt, basis=basis)
        fs.diagonalize()
        note('concatenate total_propagator vs from scratch', rel(m_Q, fs.total_propagator))
        note('concatenate t vs from scratch', rel(m_t, fs.t))
        note('concatenate tau vs from scratch', rel(m_tausum, fs.tau))
        note('concatenate result.propagators vs from scratch', rel(new.propagators, fs.propagators))
        # statements of propagators_concat / times_concat on the real package
        off, Qprev, tprev = 0, np.eye(d), 0.0
        for pl in pulses:
            for j in range(len(pl.dt) + 1):
                note('concatenate Q[off_p + j] = Q^(p)_j Q^(p-1)_tot ... Q^(0)_tot (real package)',
                     rel(fs.propagators[off + j], pl.propagators[j] @ Qprev))
                note('concatenate t[off_p + j] = sum tau + t^(p)_j (real package)',
                     rel(fs.t[off + j], tprev + pl.t[j]))
            off += len(pl.dt)
            Qprev = pl.total_propagator @ Qprev
            tprev += pl.tau

    worst = 0.0
    for k in sorted(dev):
        print(f'{k:40s} max rel deviation {dev[k]:.3e}')
        worst = max(worst, dev[k])
    for e in exact_fail:
        print('MISMATCH exact', e)
    ok = worst <= TOL and not exact_fail
    print(f'cases: periodic {len(cases)}, concatenate {len(ctx)}; max deviation {worst:.3e}; '
          + ('OK' if ok else 'FAIL'))
    sys.exit(0 if ok else 1)


if __name__ == '__main__':
    main()
