"""Correspondence of the Lean model `FFVerif/Model/RemapDef.lean` (driver components `mapids`,
`remapdef`, `extenddef`, `cacherows`) with the real package: the DEFINITION part of
`pulse_sequence.remap` / `extend` (identifiers, their order, the coefficient row and the operator
stored with each identifier, dt, _t, _tau, t, tau, exception classes).

Run:  /venv/bin/python corr_c06def.py [n_cases] [seed]
Prints the maximal deviation per component (discrete outputs: number of mismatches), exit 0 iff all
are 0 (numerical recognition of operators: <= 1e-9).
"""
import os
import subprocess
import sys
import warnings

sys.path.insert(0, os.environ.get('FFV_REPO', '/repo'))
import numpy as np  # noqa: E402

import filter_functions as ff  # noqa: E402
from filter_functions import pulse_sequence as ps  # noqa: E402
from filter_functions.pulse_sequence import PulseSequence, extend, remap  # noqa: E402

HERE = os.path.dirname(os.path.abspath(__file__))
LEAN = os.environ.get('FFV_LEAN', '/verif/lean')
TOL = 1e-9


# ------------------------------------------------------------------------------------------------
# driver
# ------------------------------------------------------------------------------------------------
def driver(reqs):
    r = subprocess.run(['lake', 'env', 'lean', '--run', 'Driver.lean'], cwd=LEAN,
                       input='\n'.join(reqs) + '\n', capture_output=True, text=True, timeout=3600)
    out = r.stdout.splitlines()
    if r.returncode != 0 or len(out) != len(reqs):
        raise RuntimeError(f'driver failed: rc={r.returncode} {len(out)}/{len(reqs)} answers\n'
                           + r.stderr[-2000:])
    return out


# ------------------------------------------------------------------------------------------------
# abstract pulses <-> real pulses
# ------------------------------------------------------------------------------------------------
_OPS = {}


def opmat(i, d):
    """operator number i in dimension d: a fixed generic Hermitian matrix (no tensor structure, so
    all its tensor transposes / embeddings are distinguishable)"""
    if (i, d) not in _OPS:
        g = np.random.default_rng(1000003 * d + i)
        a = g.standard_normal((d, d)) + 1j * g.standard_normal((d, d))
        _OPS[(i, d)] = a + a.conj().T
    return _OPS[(i, d)]


def ints(xs):
    return '_' if len(xs) == 0 else ','.join(str(int(x)) for x in xs)


def nats(xs):
    return '_' if len(xs) == 0 else '+'.join(str(int(x)) for x in xs)


def ham_s(terms):
    return '_' if not terms else ';'.join(f'{o}:{"-" if i is None else i}:{ints(c)}'
                                          for o, i, c in terms)


def dict_s(d):
    if d is None:
        return '-'
    return '_' if not d else ','.join(f'{a}>{b}' for a, b in d.items())


def recognise(m, cands):
    """index of the candidate matrix equal to m (exactly one must match)"""
    hits = [k for k, c in enumerate(cands) if c.shape == m.shape and np.abs(c - m).max() <= TOL]
    assert len(hits) == 1, hits
    return hits[0]


def abstract(pulse, ids):
    """(control terms, noise terms, dt) of a real pulse; `ids`: operator numbers it was built from"""
    d = pulse.d
    cands = [opmat(i, d) for i in ids]
    cT = [(ids[recognise(o, cands)], str(s), [int(x) for x in c])
          for o, s, c in zip(pulse.c_opers, pulse.c_oper_identifiers, pulse.c_coeffs)]
    nT = [(ids[recognise(o, cands)], str(s), [int(x) for x in c])
          for o, s, c in zip(pulse.n_opers, pulse.n_oper_identifiers, pulse.n_coeffs)]
    return cT, nT, [int(x) for x in pulse.dt]


def pulse_s(a):
    return f'{ham_s(a[0])}/{ham_s(a[1])}/{ints(a[2])}/0'


def cache_s(pulse):
    t = '-' if pulse._t is None else ints(pulse._t)
    tau = '-' if pulse._tau is None else str(int(pulse._tau))
    return t, tau


def transpose_ref(m, order, k):
    """independent tensor transpose: new factor j = old factor order[j]"""
    order = list(order)
    t = m.reshape([2] * (2 * k)).transpose(order + [k + o for o in order])
    return t.reshape(m.shape)


def embed_ref(m, qubits, N):
    """independent embedding: tensor factor j of m acts on qubit qubits[j] (qubit 0 = first /
    most significant factor), identity elsewhere"""
    k = len(qubits)
    D = 2 ** N
    rest = [q for q in range(N) if q not in qubits]

    def bits(i):
        return [(i >> (N - 1 - q)) & 1 for q in range(N)]

    out = np.zeros((D, D), dtype=complex)
    for i in range(D):
        bi = bits(i)
        si = sum(bi[q] << (k - 1 - j) for j, q in enumerate(qubits))
        for j_ in range(D):
            bj = bits(j_)
            if any(bi[q] != bj[q] for q in rest):
                continue
            sj = sum(bj[q] << (k - 1 - j) for j, q in enumerate(qubits))
            out[i, j_] = m[si, sj]
    return out


POOL = ['X', 'Y', 'Z', 'A_0', 'B_1', 'X_0', 'Q', 'a', 'b', 'Zz', 'X_1', 'Y_01', 'é']
_next_id = [1]


def random_pulse(rng, k, n_dt=None, dt=None):
    d = 2 ** k
    nC, nN = rng.integers(1, 5), rng.integers(1, 5)
    if dt is None:
        n_dt = n_dt or rng.integers(1, 4)
        dt = [int(x) for x in rng.integers(1, 4, n_dt)]
    n_dt = len(dt)
    ids = list(range(_next_id[0], _next_id[0] + nC + nN))
    _next_id[0] += nC + nN
    names_c = list(rng.choice(POOL, nC, replace=False))
    names_n = list(rng.choice(POOL, nN, replace=False))
    if rng.random() < 0.3:       # default identifiers
        H_c = [[opmat(i, d), [int(x) for x in rng.integers(-3, 4, n_dt)]] for i in ids[:nC]]
    else:
        H_c = [[opmat(i, d), [int(x) for x in rng.integers(-3, 4, n_dt)], s]
               for i, s in zip(ids[:nC], names_c)]
    if rng.random() < 0.3:
        H_n = [[opmat(i, d), [int(x) for x in rng.integers(-3, 4, n_dt)]] for i in ids[nC:]]
    else:
        H_n = [[opmat(i, d), [int(x) for x in rng.integers(-3, 4, n_dt)], s]
               for i, s in zip(ids[nC:], names_n)]
    basis = ff.Basis.pauli(k) if rng.random() < 0.5 else None
    pulse = PulseSequence(H_c, H_n, dt, basis) if basis is not None else PulseSequence(H_c, H_n, dt)
    r = rng.random()
    if r < 0.25:
        pulse.t                                    # fills the cache
    elif r < 0.4:
        pulse.t = np.array([int(x) for x in rng.integers(0, 9, n_dt + 1)])   # public setter
    elif r < 0.45:
        pulse.tau                                  # fills _tau only
    return pulse, ids


def random_mapping(rng, names, mode=None, names_c=None, names_n=None):
    """`clash` sends everything to two names; `clash_c` / `clash_n` make exactly two CONTROL / two
    NOISE identifiers coincide and keep all others apart (fresh names); `clash_missing` does both a
    collision and a missing key (the missing key is raised first: `KeyError` before the repair F50,
    `ValueError` since)"""
    names = list(dict.fromkeys(names))
    mode = mode or rng.choice(['none', 'perm', 'pool', 'clash', 'missing', 'identity', 'clash_c',
                               'clash_n', 'clash_missing'],
                              p=[0.15, 0.2, 0.2, 0.07, 0.08, 0.08, 0.08, 0.08, 0.06])
    if mode in ('clash_c', 'clash_n', 'clash_missing'):
        m = {s: f'u{k}' for k, s in enumerate(names)}        # injective
        grp = names_c if mode == 'clash_c' else names_n if mode == 'clash_n' else \
            (names_c if rng.random() < 0.5 else names_n)
        grp = list(dict.fromkeys(grp or []))
        if len(grp) >= 2:
            a, b = rng.choice(len(grp), 2, replace=False)
            m[grp[a]] = m[grp[b]]
        if mode == 'clash_missing' and m:
            del m[str(rng.choice(list(m)))]
        return m
    if mode == 'none':
        return None
    if mode == 'identity':
        return {s: s for s in names}
    if mode == 'perm':
        img = list(rng.permutation(names))
        return {s: str(t) for s, t in zip(names, img)}
    if mode == 'pool':
        img = rng.choice(POOL, len(names), replace=len(names) > len(POOL))
        return {s: str(t) for s, t in zip(names, img)}
    if mode == 'clash':
        return {s: str(rng.choice(['Q', 'R'])) for s in names}
    m = {s: str(rng.choice(POOL)) for s in names}
    if m:
        del m[str(rng.choice(list(m)))]
    return m


class Stat:
    def __init__(self):
        self.dev = {}
        self.count = {}

    def add(self, name, bad, info=None):
        self.count[name] = self.count.get(name, 0) + 1
        self.dev[name] = self.dev.get(name, 0) + (1 if bad else 0)
        if bad and self.dev[name] <= 3:
            print(f'MISMATCH {name}: {info}')


# ------------------------------------------------------------------------------------------------
# cases
# ------------------------------------------------------------------------------------------------
def argsort_stability(rng, st):
    """what NumPy does for equal keys: stable for n <= 16 (insertion sort), not beyond"""
    for n in (2, 5, 16):
        for _ in range(200):
            a = np.array(rng.choice(['a', 'b', 'c', 'dd', 'a_1'], size=n))
            st.add('argsort stable for n<=16', not (np.argsort(a) == np.argsort(a, kind='stable')).all(), a)
    unstable = 0
    for _ in range(200):
        a = np.array(rng.choice(['a', 'b'], size=40))
        unstable += not (np.argsort(a) == np.argsort(a, kind='stable')).all()
    print(f'(info) np.argsort on 40 strings with ties: {unstable}/200 differ from a stable sort')


def mapids_cases(rng, n):
    reqs, refs = [], []
    for _ in range(n):
        k = rng.integers(0, 9)
        ids = [str(s) for s in rng.choice(POOL, k)]
        m = random_mapping(rng, ids)
        try:
            r, s = ps._map_identifiers(np.array(ids, dtype=str) if k else np.array([], dtype=str), m)
            ref = 'ok ' + ('_' if k == 0 else ','.join(str(x) for x in r)) + '/' + nats(s)
        except (KeyError, ValueError) as e:      # ValueError since the repair F50
            ref = 'err ' + type(e).__name__
        reqs.append(f'mapids {"_" if k == 0 else ",".join(ids)} {dict_s(m)}')
        refs.append(ref)
    return reqs, refs


def remap_cases(rng, n):
    cases = []
    for _ in range(n):
        k = int(rng.integers(1, 4))
        pulse, ids = random_pulse(rng, k)
        a = abstract(pulse, ids)
        names = [t[1] for t in a[0] + a[1]]
        m = random_mapping(rng, names, names_c=[t[1] for t in a[0]], names_n=[t[1] for t in a[1]])
        order = [int(x) for x in rng.permutation(k)]
        if rng.random() < 0.15:
            order = list(range(k))
        tc, tauc = cache_s(pulse)
        req = f'remapdef {pulse_s(a)} {tc} {tauc} {dict_s(m)}'
        with warnings.catch_warnings():
            warnings.simplefilter('ignore')
            try:
                r = remap(pulse, order, oper_identifier_mapping=m)
                err = None
            except Exception as e:  # noqa
                r, err = None, type(e).__name__
        cases.append((req, pulse, ids, order, m, k, r, err))
    return cases


def check_remap(st, case, ans):
    req, pulse, ids, order, m, k, r, err = case
    if err is not None or ans.startswith('err'):
        st.add('remap error class', ans != f'err {err}', (req, ans, err))
        return
    body = ans[3:].split(' ')
    mp, mt, mtau, mtt, mtautau = body
    cS, nS, dtS, _ = mp.split('/')
    d = pulse.d
    cands = [transpose_ref(opmat(i, d), order, k) for i in ids]
    for kind, S, opers, idents, coeffs in (('c', cS, r.c_opers, r.c_oper_identifiers, r.c_coeffs),
                                           ('n', nS, r.n_opers, r.n_oper_identifiers, r.n_coeffs)):
        terms = [t.split(':') for t in S.split(';')]
        st.add(f'remap {kind} identifiers', [t[1] for t in terms] != [str(s) for s in idents],
               (req, ans, list(idents)))
        st.add(f'remap {kind} coefficient rows',
               [t[2] for t in terms] != [ints(c) for c in coeffs], (req, ans, coeffs))
        try:
            real_ops = [ids[recognise(o, cands)] for o in opers]
        except AssertionError:
            real_ops = None
        st.add(f'remap {kind} operators', [int(t[0]) for t in terms] != real_ops,
               (req, ans, real_ops))
    st.add('remap dt', dtS != ints(r.dt), (req, ans))
    st.add('remap _t', mt != ('-' if r._t is None else ints(r._t)), (req, ans, r._t))
    st.add('remap _tau', mtau != ('-' if r._tau is None else str(int(r._tau))), (req, ans, r._tau))
    st.add('remap t', mtt != ints(r.t), (req, ans, r.t))
    st.add('remap tau', mtautau != str(int(r.tau)), (req, ans, r.tau))
    st.add('remap t, tau unchanged', not (np.array_equal(r.t, pulse.t) and r.tau == pulse.tau), req)


def extend_cases(rng, n):
    cases = []
    for _ in range(n):
        nE = int(rng.choice([1, 2, 3], p=[0.2, 0.5, 0.3]))
        Nmax = 4
        dt = [int(x) for x in rng.integers(1, 4, rng.integers(1, 4))]
        free = list(rng.permutation(Nmax))
        entries = []
        prev = None
        for e in range(nE):
            k = int(rng.choice([1, 2, 3], p=[0.55, 0.35, 0.1]))
            k = max(1, min(k, len(free) - (nE - 1 - e))) if len(free) - (nE - 1 - e) >= 1 else 1
            if prev is not None and rng.random() < 0.15:
                pulse, ids, k = prev                       # the same pulse object twice
            else:
                edt = dt
                if rng.random() < 0.06:
                    edt = [x + 1 for x in dt] if rng.random() < 0.5 else dt + [1]
                pulse, ids = random_pulse(rng, k, dt=edt)
            prev = (pulse, ids, k)
            if rng.random() < 0.05 and entries:
                qs = [int(x) for x in rng.choice(Nmax, k, replace=False)]     # possible clash
            else:
                qs = [int(free.pop()) for _ in range(min(k, len(free)))]
                if rng.random() < 0.3:
                    qs = sorted(qs)
            if len(qs) != k and not qs:
                qs = [0]
            if k == 1 and len(qs) == 1:
                form = str(rng.choice(['b', 't', 'l']))
            else:
                form = str(rng.choice(['t', 'l'], p=[0.8, 0.2]))
            if rng.random() < 0.03 and form != 'b':
                qs = qs[:-1] if len(qs) > 1 else qs + [int((qs[0] + 1) % Nmax)]   # wrong count
            a = abstract(pulse, ids)
            m = random_mapping(rng, [t[1] for t in a[0] + a[1]],
                               rng.choice(['none', 'perm', 'pool', 'clash', 'missing', 'identity'],
                                          p=[0.5, 0.1, 0.2, 0.08, 0.06, 0.06]))
            entries.append((pulse, ids, a, qs, form, m))
        if len(entries) >= 2 and rng.random() < 0.3:
            # identifiers that coincide BETWEEN two mapped pulses, on purpose: only control, only
            # noise, or both; all other identifiers are kept apart; sometimes with a missing key
            kind = str(rng.choice(['c', 'n', 'cn']))
            i0, i1 = (int(x) for x in rng.choice(len(entries), 2, replace=False))
            maps = {}
            for ei in (i0, i1):
                a_ = entries[ei][2]
                maps[ei] = {t[1]: f'p{ei}_{t[1]}' for t in a_[0] + a_[1]}
            if 'c' in kind:
                maps[i0][entries[i0][2][0][0][1]] = 'SAMEc'
                maps[i1][entries[i1][2][0][-1][1]] = 'SAMEc'
            if 'n' in kind:
                maps[i0][entries[i0][2][1][0][1]] = 'SAMEn'
                maps[i1][entries[i1][2][1][-1][1]] = 'SAMEn'
            if rng.random() < 0.15:
                del maps[i1][str(rng.choice(list(maps[i1])))]
            if entries[i0][0] is not entries[i1][0] or True:
                for ei in (i0, i1):
                    e_ = entries[ei]
                    entries[ei] = (e_[0], e_[1], e_[2], e_[3], e_[4], maps[ei])
        top = max(max(e[3]) for e in entries) + 1
        r = rng.random()
        N = None if r < 0.6 else int(top + rng.integers(0, 2)) if r < 0.93 else max(top - 1, 1)
        Neff = N if N is not None else top
        add = None
        add_dim_ok = True
        if rng.random() < 0.4:
            nA = int(rng.integers(1, 4))
            dA = 2 ** Neff
            if rng.random() < 0.07:
                dA, add_dim_ok = max(2, dA // 2) if dA > 2 else 4, False
            n_dt = len(entries[0][2][2])
            if Neff <= 5:
                add = []
                pool = POOL + ['B_0', 'B_2', 'X_2', 'Z_3', 'Y_1']
                for j in range(nA):
                    i = _next_id[0]
                    _next_id[0] += 1
                    cf = [int(x) for x in rng.integers(-3, 4, n_dt)]
                    if rng.random() < 0.05:
                        cf = cf + [1]
                    s = None if rng.random() < 0.3 else str(rng.choice(pool))
                    add.append((i, s, cf, dA))
        cases.append((entries, N, add, add_dim_ok))
    return cases


def extend_request(case):
    """request for the model AND the observation of the real call (made now: later calls may fill
    the caches of shared input pulses)"""
    entries, N, add, add_dim_ok = case
    toks = ['extenddef', '-' if N is None else str(N),
            '-' if add is None else ham_s([(i, s, c) for i, s, c, _ in add]),
            '1' if add_dim_ok else '0']
    for pulse, ids, a, qs, form, m in entries:
        tc, tauc = cache_s(pulse)
        k = int(round(np.log2(pulse.d)))
        toks += [pulse_s(a), tc, tauc, '1' if k == len(qs) else '0', nats(qs), form, dict_s(m)]
    return ' '.join(toks), run_extend(case)


def run_extend(case):
    entries, N, add, add_dim_ok = case
    mapping = []
    for pulse, ids, a, qs, form, m in entries:
        q = qs[0] if form == 'b' else tuple(qs) if form == 't' else list(qs)
        mapping.append((pulse, q) if m is None and all(e[5] is None for e in entries)
                       else (pulse, q, m))
    H = None if add is None else [[opmat(i, dA), c] + ([] if s is None else [s])
                                  for i, s, c, dA in add]
    with warnings.catch_warnings():
        warnings.simplefilter('ignore')
        try:
            r = extend(mapping, N=N, additional_noise_Hamiltonian=H)
            err = None
        except Exception as e:  # noqa
            r, err = None, type(e).__name__
    obs = None
    if r is not None:
        obs = dict(_t=None if r._t is None else np.array(r._t), _tau=r._tau,
                   same=[r is e[0] for e in entries])
    return r, err, obs


def check_extend(st, case, req, real, ans):
    entries, N, add, add_dim_ok = case
    r, err, obs = real
    if err is not None or ans.startswith('err'):
        st.add('extend error class', ans != f'err {err}', (req, ans, err))
        return
    cS, nS, dtS, mt, mtau, mN, mshort, mtt, mtautau = ans[3:].split('/')
    Nres = int(round(np.log2(r.d)))
    st.add('extend N', int(mN) != Nres, (req, ans, Nres))
    # shortcut: the returned object is the input itself, or (after `remap`) a remapped copy of it
    remapped = '.-.' not in cS.split(':')[0]
    st.add('extend shortcut', any(obs['same']) != (mshort == '1' and not remapped), (req, ans))
    if mshort == '1':
        st.add('extend shortcut keeps identifiers',
               [str(x) for x in r.n_oper_identifiers] != [t[1] for t in entries[0][2][1]], (req, ans))
    # reference operators: every operator of every entry embedded on the qubits AS GIVEN
    cands, labels = [], []
    for e, (pulse, ids, a, qs, form, m) in enumerate(entries):
        k = int(round(np.log2(pulse.d)))
        if k != len(qs):
            continue
        for i in ids:
            cands.append(embed_ref(opmat(i, pulse.d), qs, Nres))
            labels.append(('m', e, i))
    for i, s, c, dA in (add or []):
        cands.append(opmat(i, dA))
        labels.append(('a', i))
    for kind, S, opers, idents, coeffs in (('c', cS, r.c_opers, r.c_oper_identifiers, r.c_coeffs),
                                           ('n', nS, r.n_opers, r.n_oper_identifiers, r.n_coeffs)):
        terms = [t.split(':') for t in S.split(';')]
        st.add(f'extend {kind} identifiers', [t[1] for t in terms] != [str(s) for s in idents],
               (req, ans, list(idents)))
        st.add(f'extend {kind} coefficient rows',
               [t[2] for t in terms] != [ints(c) for c in coeffs], (req, ans, coeffs))
        toks, ok_tok = [], True
        for t in terms:
            f = t[0].split('.')
            if f[0] == 'a':
                toks.append(('a', int(f[1])))
            else:
                e, o = int(f[1]), int(f[2])
                sq = [int(x) for x in f[4].split('+')]
                given = entries[e][3]
                if f[3] == '-':
                    ok_tok &= (sq == list(given))
                else:
                    order = [int(x) for x in f[3].split('+')]
                    # remap puts old factor order[j] at place j, which then sits on qubit sq[j]
                    ok_tok &= (len(order) == len(given) and all(given[order[j]] == sq[j] for j in range(len(sq))))
                ok_tok &= (sq == sorted(sq))
                toks.append(('m', e, o))
        st.add(f'extend {kind} token placement', not ok_tok, (req, ans))
        try:
            real = [labels[recognise(o, cands)] for o in opers]
        except AssertionError:
            real = None
        if real is not None:
            # the same pulse object may occur in two entries: operators are then told apart by the
            # qubits (different embeddings), so labels stay unique
            pass
        st.add(f'extend {kind} operators', toks != real, (req, ans, real))
    st.add('extend dt', dtS != ints(r.dt), (req, ans))
    st.add('extend _t', mt != ('-' if obs['_t'] is None else ints(obs['_t'])), (req, ans, obs['_t']))
    st.add('extend _tau', mtau != ('-' if obs['_tau'] is None else str(int(obs['_tau']))), (req, ans))
    st.add('extend t', mtt != ints(r.t), (req, ans, r.t))
    st.add('extend tau', mtautau != str(int(r.tau)), (req, ans, r.tau))


def special_extend_cases():
    """structured inputs: clashing names, additional operators looked up by identifier in any order,
    default identifiers of the additional Hamiltonian, empty tuple, list qubits, N too small, …"""
    rng = np.random.default_rng(7)
    out = []
    p1, i1 = random_pulse(rng, 1, dt=[1, 2])
    p2, i2 = random_pulse(rng, 2, dt=[1, 2])
    p3, i3 = random_pulse(rng, 3, dt=[1, 2])
    pd, idd = random_pulse(rng, 1, dt=[1, 3])
    a1, a2, a3, ad = abstract(p1, i1), abstract(p2, i2), abstract(p3, i3), abstract(pd, idd)
    ident = {t[1]: t[1] for t in a1[0] + a1[1]}
    E = lambda p, i, a, qs, form='t', m=None: (p, i, a, qs, form, m)  # noqa
    out.append(([E(p1, i1, a1, [0], 'b', ident), E(p1, i1, a1, [1], 'b', ident)], None, None, True))
    out.append(([E(p1, i1, a1, [0], 'b'), E(p1, i1, a1, [1], 't'), E(p1, i1, a1, [2], 'l')], None, None, True))
    out.append(([E(p1, i1, a1, [0], 'b')], None, None, True))             # shortcut
    out.append(([E(p1, i1, a1, [0], 'b', ident)], 1, None, True))         # shortcut ignores mapping
    out.append(([E(p1, i1, a1, [1], 'b')], None, None, True))
    out.append(([E(p2, i2, a2, [0, 1])], None, None, True))               # shortcut
    out.append(([E(p2, i2, a2, [1, 0])], None, None, True))               # shortcut after remap
    out.append(([E(p2, i2, a2, [0, 1], 'l')], None, None, True))          # list: remap, identity order
    out.append(([E(p2, i2, a2, [0, 1])], 3, None, True))
    out.append(([E(p2, i2, a2, [2, 0]), E(p1, i1, a1, [1], 'b')], None, None, True))
    out.append(([E(p3, i3, a3, [2, 0, 1]), E(p1, i1, a1, [3], 'b')], None, None, True))
    out.append(([E(p3, i3, a3, [1, 2, 0])], 4, None, True))
    out.append(([E(p3, i3, a3, [3, 0, 2]), E(p1, i1, a1, [1], 't')], 5, None, True))
    out.append(([E(p2, i2, a2, [], 't')], None, None, True))              # empty tuple
    out.append(([E(p1, i1, a1, [0], 'b'), E(pd, idd, ad, [1], 'b')], None, None, True))   # dt differ
    out.append(([E(p1, i1, a1, [0], 'b'), E(p2, i2, a2, [0, 1])], None, None, True))      # clash
    out.append(([E(p1, i1, a1, [0], 'b'), E(p1, i1, a1, [2], 'b')], 2, None, True))       # N small
    out.append(([E(p2, i2, a2, [1], 't')], None, None, True))             # wrong dimension
    out.append(([E(p1, i1, a1, [0, 1], 't')], None, None, True))          # wrong dimension
    out.append(([E(p1, i1, a1, [1, 0], 't')], None, None, True))          # wrong dimension + remap
    # additional noise Hamiltonian
    n1 = a1[1][0][1]
    for perm in ([0, 1, 2], [2, 0, 1], [1, 2, 0]):
        add = [(9001, 'ZZ', [1, 2], 4), (9002, 'AA', [3, 4], 4), (9003, 'B_0', [5, 6], 4)]
        out.append(([E(p1, i1, a1, [0], 'b'), E(p1, i1, a1, [1], 'b')], None,
                    [add[j] for j in perm], True))
    out.append(([E(p1, i1, a1, [0], 'b'), E(p1, i1, a1, [1], 'b')], None,
                [(9001, None, [1, 2], 4), (9002, None, [3, 4], 4)], True))      # defaults B_0, B_1
    out.append(([E(p1, i1, a1, [0], 'b'), E(p1, i1, a1, [1], 'b')], None,
                [(9001, None, [1, 2], 4), (9002, 'B_0', [3, 4], 4)], True))     # duplicate
    out.append(([E(p1, i1, a1, [0], 'b'), E(p1, i1, a1, [1], 'b')], None,
                [(9001, n1 + '_1', [1, 2], 4)], True))                          # clash with mapped
    out.append(([E(p1, i1, a1, [0], 'b'), E(p1, i1, a1, [1], 'b')], None,
                [(9001, n1, [1, 2], 4)], True))                                 # no clash (suffix)
    out.append(([E(p1, i1, a1, [0], 'b'), E(p1, i1, a1, [1], 'b')], None,
                [(9001, 'W', [1, 2, 3], 4)], True))                             # wrong length
    out.append(([E(p1, i1, a1, [0], 'b'), E(p1, i1, a1, [1], 'b')], None,
                [(9001, 'W', [1, 2], 2)], False))                               # wrong dimension
    out.append(([E(p1, i1, a1, [0], 'b')], None, [(9001, 'W', [1, 2], 2)], True))   # shortcut drops it
    out.append(([E(p1, i1, a1, [0], 'b', {})], 2, None, True))                  # missing key
    out.append(([E(p1, i1, a1, [0], 'b', {}), E(pd, idd, ad, [1], 'b')], None, None, True))  # ValueError first
    out.append(([E(p1, i1, a1, [0], 'b', {})], 2, [(9001, 'W', [1, 2, 3], 4)], True))  # missing key first
    # identifiers that coincide after the mapping (repaired: ValueError)
    c0, n0 = a1[0][0][1], a1[1][0][1]
    inj = lambda a, pre: {t[1]: pre + t[1] for t in a[0] + a[1]}  # noqa
    mc0, mc1 = inj(a1, 'u'), inj(a1, 'v')
    mc0[c0] = mc1[c0] = 'SAME'                                          # control only
    out.append(([E(p1, i1, a1, [0], 'b', mc0), E(p1, i1, a1, [1], 'b', mc1)], None, None, True))
    mn0, mn1 = inj(a1, 'u'), inj(a1, 'v')
    mn0[n0] = mn1[n0] = 'SAME'                                          # noise only
    out.append(([E(p1, i1, a1, [0], 'b', mn0), E(p1, i1, a1, [1], 'b', mn1)], None, None, True))
    out.append(([E(p2, i2, a2, [2, 0], 't', {**inj(a2, 'u'), a2[1][0][1]: 'SAME'}),
                 E(p1, i1, a1, [1], 'b', {**inj(a1, 'v'), n0: 'SAME'})], None, None, True))  # multi + single
    mk = dict(mc1)
    del mk[n0]
    out.append(([E(p1, i1, a1, [0], 'b', mc0), E(p1, i1, a1, [1], 'b', mk)], None, None, True))   # missing key first
    out.append(([E(p1, i1, a1, [0], 'b', mc0), E(p1, i1, a1, [1], 'b', mc1)], None,
                [(9001, 'W', [1, 2, 3], 4)], True))                     # before the additional checks
    out.append(([E(p1, i1, a1, [0], 'b', mc0), E(p1, i1, a1, [0], 'b', mc1)], None, None, True))  # qubit clash first
    if len(a1[0]) >= 2:                                                 # within ONE pulse
        mw = inj(a1, 'u')
        mw[a1[0][0][1]] = mw[a1[0][1][1]]
        out.append(([E(p1, i1, a1, [0], 'b', mw), E(pd, idd, ad, [1], 'b')], None, None, True))  # dt differ first
        out.append(([E(p1, i1, a1, [0], 'b', mw), E(p1, i1, a1, [1], 'b')], None, None, True))
        out.append(([E(p1, i1, a1, [0], 'b', mw)], None, None, True))   # shortcut: mapping ignored
        out.append(([E(p1, i1, a1, [0], 'b', mw)], 2, None, True))
    # default suffixes can coincide with given names
    out.append(([E(p1, i1, a1, [0], 'b'), E(p1, i1, a1, [1], 'b', {**inj(a1, 'v'), n0: n0 + '_0'})],
                None, None, True))
    return out


def cacherows_cases(rng, n):
    reqs, refs = [], []
    for _ in range(n):
        nA, nK = int(rng.integers(1, 6)), int(rng.integers(1, 6))
        s = rng.permutation(nA)
        c = rng.permutation(nK)
        B = rng.integers(-9, 10, (nA, nK))
        R = np.full((nA, nK), 99)
        R[s.argsort()[:, None], c[None, :]] = B
        G = np.full((nA, nK), 99)
        G[:, c] = B[s]
        reqs.append(f'cacherows {nats(s)} {nats(c)} {nK} ' + ';'.join(ints(r) for r in B))
        refs.append('ok ' + ';'.join(ints(r) for r in R) + '/' + ';'.join(ints(r) for r in G))
    return reqs, refs


def main():
    quick = os.environ.get('FFV_TIER', 'thorough') == 'quick'
    n = int(sys.argv[1]) if len(sys.argv) > 1 else (120 if quick else 600)
    seed = int(sys.argv[2]) if len(sys.argv) > 2 else 20261001
    rng = np.random.default_rng([seed, int(os.environ.get('VERIF_SEED', '0'))])
    st = Stat()
    argsort_stability(rng, st)

    mi_req, mi_ref = mapids_cases(rng, n)
    rc = remap_cases(rng, n)
    ec = special_extend_cases() + extend_cases(rng, n)
    ec_rr = [extend_request(c) for c in ec]
    ec_req = [x[0] for x in ec_rr]
    cr_req, cr_ref = cacherows_cases(rng, max(50, n // 4))
    reqs = mi_req + [c[0] for c in rc] + ec_req + cr_req
    ans = driver(reqs)
    k = 0
    for req, ref in zip(mi_req, mi_ref):
        st.add('_map_identifiers', ans[k] != ref, (req, ans[k], ref))
        k += 1
    for c in rc:
        check_remap(st, c, ans[k])
        k += 1
    classes = {}
    for c, (req, real) in zip(ec, ec_rr):
        check_extend(st, c, req, real, ans[k])
        key = ans[k].split(' ')[0] + (' ' + ans[k].split(' ')[1] if ans[k].startswith('err') else '')
        classes[key] = classes.get(key, 0) + 1
        k += 1
    for req, ref in zip(cr_req, cr_ref):
        st.add('cached rows scatter/gather', ans[k] != ref, (req, ans[k], ref))
        k += 1
    print('extend outcomes:', classes)
    n_rc = sum(1 for c in rc if c[7] == 'ValueError')
    n_ec = sum(1 for c, (req, real) in zip(ec, ec_rr)
               if real[1] == 'ValueError' and real[2] is None and 'SAME' in req)
    print(f'(info) remap calls rejected with ValueError (missing key or colliding identifiers): {n_rc}; '
          f'extend calls with a planted collision that raised ValueError: {n_ec}')
    bad = 0
    for name in sorted(st.dev):
        print(f'{name:40s} max rel deviation {float(st.dev[name]):.1f}   (mismatches among {st.count[name]} cases)')
        bad += st.dev[name]
    print('max deviation:', bad)
    sys.exit(0 if bad == 0 else 1)


if __name__ == '__main__':
    main()
