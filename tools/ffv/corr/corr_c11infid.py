"""Correspondence check C11Infid: the real `gradient.infidelity_derivative` (and
`PulseSequence.get_filter_function_derivative`) versus the Lean end-to-end model
`pulseInfidelityDerivative0/1` / `pulseFilterFunctionDerivative` (driver component `infidderiv`),
from the pulse's own eigen-data (`pulse.diagonalize()`: eigvals / eigvecs / propagators are the oracle
inputs).  Run with /venv/bin/python; exit 0 iff every component deviates by <= 1e-9 (relative to the
largest entry of the reference, or to 1e-3 x the natural scale S_max * omega_span * F_max * tau / (2 pi d) of
the output where the reference vanishes identically — e.g. a single idle segment, both sides ~1e-17).

Inputs: random pulses d = 2, 3, 4 (1..4 segments) with identifiers; idle (H = 0) and degenerate
segments; commuting integer-valued pulses with omega = 0 and exactly resonant frequencies on the grid;
with / without n_coeffs_deriv; non-traceless control and noise operators; Pauli / GGM / non-Hermitian
(matrix-unit) bases; spectra of shape (n_omega,), (k, n_omega) (k = number of SELECTED noise
operators), a zero spectrum; identifier selections: none, a sub-list, a permuted list, for controls
and for noise operators.
"""
import os
import struct
import subprocess
import sys

sys.path.insert(0, os.environ.get('FFV_REPO', '/repo'))
import numpy as np  # noqa: E402

import filter_functions as ff  # noqa: E402
from filter_functions import gradient, util  # noqa: E402

LEAN = os.environ.get('FFV_LEAN', '/verif/lean')
TOL = 1e-9


def f2b(x):
    return str(struct.unpack('>Q', struct.pack('>d', float(x)))[0])


def b2f(s):
    return struct.unpack('>d', struct.pack('>Q', int(s)))[0]


def arr2bits(a):
    a = np.asarray(a)
    if np.iscomplexobj(a):
        flat = np.ascontiguousarray(a).astype(complex).view(float).ravel()
    else:
        flat = a.astype(float).ravel()
    return ','.join(f2b(v) for v in flat) if flat.size else '-'


def bits2arr(s, shape=None):
    vals = np.array([b2f(t) for t in s.split(',') if t], dtype=float)
    if shape is not None:
        vals = vals.reshape(shape)
    return vals


def driver(lines, timeout=3000):
    inp = '\n'.join(lines) + '\n'
    p = subprocess.run(['lake', 'env', 'lean', '--run', 'Driver.lean'], cwd=LEAN, input=inp,
                       capture_output=True, text=True, timeout=timeout)
    if p.returncode != 0:
        raise RuntimeError('lean driver failed: ' + (p.stderr or p.stdout)[-2000:])
    res = [ln for ln in p.stdout.split('\n') if ln.startswith('ok') or ln.startswith('err')]
    if len(res) != len(lines):
        raise RuntimeError(f'driver answered {len(res)} lines for {len(lines)} requests')
    return res


def rel_err(a, b):
    a, b = np.asarray(a), np.asarray(b)
    if a.shape != b.shape:
        return np.inf
    if a.size == 0:
        return 0.0
    if not np.all(np.isfinite(a)):
        return np.inf
    return float(np.max(np.abs(a - b))/max(np.max(np.abs(b)), 1e-300))


def rand_herm(rng, d, traceless=False):
    a = rng.standard_normal((d, d)) + 1j*rng.standard_normal((d, d))
    h = (a + a.conj().T)/2
    if traceless:
        h = h - np.trace(h)/d*np.eye(d)
    return h


def matrix_unit_basis(d):
    """orthonormal, complete, NOT Hermitian: the matrix units E_ij"""
    els = np.zeros((d*d, d, d), dtype=complex)
    for i in range(d):
        for j in range(d):
            els[i*d + j, i, j] = 1
    return ff.Basis(els)


def select(rng, ids, mode):
    """identifier selection: None | sub-list | permuted full list | single"""
    ids = list(ids)
    if mode == 'none' or len(ids) == 0:
        return None
    if mode == 'perm':
        return [ids[i] for i in rng.permutation(len(ids))]
    if mode == 'single':
        return [ids[int(rng.integers(0, len(ids)))]]
    k = max(1, len(ids) - 1)
    return [ids[i] for i in rng.permutation(len(ids))[:k]]


def make_case(rng, d, nG, kind, basis_kind, with_ncd, sel_n, sel_c, rank):
    nC = int(rng.integers(1, 4))
    nA = int(rng.integers(1, 4))
    if kind == 'diag':
        c_opers = [np.diag(rng.integers(-2, 3, d)).astype(complex) for _ in range(nC)]
        c_coeffs = rng.integers(-2, 3, (nC, nG)).astype(float)
    else:
        c_opers = [rand_herm(rng, d, traceless=bool(rng.integers(0, 2))) for _ in range(nC)]
        c_coeffs = rng.normal(size=(nC, nG))
    if kind == 'idle':
        c_coeffs[:, int(rng.integers(0, nG))] = 0.0
    if kind == 'degenerate':
        v = rng.standard_normal(d) + 1j*rng.standard_normal(d)
        v /= np.linalg.norm(v)
        c_opers[0] = np.outer(v, v.conj())
        c_coeffs[1:, int(rng.integers(0, nG))] = 0.0
    if kind == 'projector':
        # noise operators with a trace: (1 + Z)/2-like projectors
        n_opers = []
        for _ in range(nA):
            v = rng.standard_normal(d) + 1j*rng.standard_normal(d)
            v /= np.linalg.norm(v)
            n_opers.append(np.outer(v, v.conj()))
    else:
        n_opers = [rand_herm(rng, d, traceless=bool(rng.integers(0, 2))) for _ in range(nA)]
    n_coeffs = rng.uniform(0.5, 1.5, size=(nA, nG))
    dt = rng.uniform(0.2, 1.5, size=nG)
    if kind == 'diag':
        dt = rng.integers(1, 3, nG).astype(float)
    if basis_kind == 'pauli' and d in (2, 4):
        basis = ff.Basis.pauli(int(np.log2(d)))
    elif basis_kind == 'units':
        basis = matrix_unit_basis(d)
    else:
        basis = ff.Basis.ggm(d)
    # identifiers in non-sorted order so that stored order != given order
    c_names = [f'c{j}' for j in rng.permutation(nC)]
    n_names = [f'n{j}' for j in rng.permutation(nA)]
    H_c = [[op, list(c), nm] for op, c, nm in zip(c_opers, c_coeffs, c_names)]
    H_n = [[op, list(c), nm] for op, c, nm in zip(n_opers, n_coeffs, n_names)]
    pulse = ff.PulseSequence(H_c, H_n, list(dt), basis=basis)
    pulse.diagonalize()
    nO = int(rng.integers(2, 6))
    if kind == 'diag':
        ev = pulse.eigvals[int(rng.integers(0, nG))]
        dE = np.subtract.outer(ev, ev).ravel()
        omega = np.sort(np.concatenate(([0.0], np.abs(dE[rng.integers(0, dE.size, 2)]),
                                        rng.uniform(0, 4, size=2))))
    elif kind == 'unsorted':
        omega = rng.normal(size=nO)*3          # trapezoid rule on an unsorted grid
    elif kind == 'onepoint':
        omega = rng.uniform(0.1, 3, size=1)    # n_omega = 1: empty trapezoid sum
    else:
        omega = np.sort(rng.uniform(-1, 5, size=nO))
    omega = np.asarray(omega, float)
    c_sel = select(rng, pulse.c_oper_identifiers, sel_c)
    n_sel = select(rng, pulse.n_oper_identifiers, sel_n)
    c_idx = util.get_indices_from_identifiers(pulse.c_oper_identifiers, c_sel)
    n_idx = util.get_indices_from_identifiers(pulse.n_oper_identifiers, n_sel)
    ncd = rng.normal(size=(len(n_idx), len(c_idx), nG)) if with_ncd else None
    if rank == 0:
        S = rng.uniform(0.1, 2, size=len(omega))
    elif rank == 1:
        S = rng.uniform(0.1, 2, size=(len(n_idx), len(omega)))
    else:
        S = None
    if kind == 'zerospec' and S is not None:
        S = np.zeros_like(S)
    return pulse, omega, c_sel, n_sel, c_idx, n_idx, ncd, S


def request(case, rank):
    pulse, omega, c_sel, n_sel, c_idx, n_idx, ncd, S = case
    d, nG = pulse.d, len(pulse.dt)
    basis = pulse.basis
    nAll, nCAll, nK = len(pulse.n_opers), len(pulse.c_opers), len(basis)
    # oracle data BEFORE the real call (the real call caches, it does not change them)
    fields = [
        'infidderiv', 'ffd' if rank == 'ffd' else str(rank), str(nG), str(d), str(len(omega)),
        str(nAll), str(nCAll), str(len(n_idx)), str(len(c_idx)), str(nK),
        '1' if basis.isherm else '0', '0' if ncd is None else '1', str(pulse.d),
        ','.join(str(int(i)) for i in n_idx), ','.join(str(int(i)) for i in c_idx),
        arr2bits(pulse.eigvals), arr2bits(pulse.eigvecs.astype(complex)),
        arr2bits(pulse.propagators.astype(complex)), arr2bits(omega),
        arr2bits(np.asarray(basis).astype(complex)), arr2bits(pulse.n_opers.astype(complex)),
        arr2bits(pulse.n_coeffs), arr2bits(pulse.c_opers.astype(complex)),
        '-' if ncd is None else arr2bits(ncd), arr2bits(pulse.dt), arr2bits(pulse.t),
        '-' if S is None else arr2bits(S)]
    with np.errstate(all='ignore'):
        if rank == 'ffd':
            ref = pulse.get_filter_function_derivative(omega, c_sel, n_sel, ncd)
        else:
            ref = gradient.infidelity_derivative(pulse, S, omega, c_sel, n_sel, ncd)
        # natural scale of the output (floor for the relative deviation where the derivative vanishes
        # identically, e.g. a single idle segment: both sides are rounding noise ~1e-17 there)
        fmax = float(np.max(np.abs(pulse.get_filter_function(omega)), initial=0.0))
    tau = float(np.sum(np.abs(pulse.dt)))
    if rank == 'ffd':
        floor = fmax*tau
    else:
        span = float(np.max(omega) - np.min(omega)) if len(omega) > 1 else 0.0
        floor = float(np.max(np.abs(S), initial=0.0))*span*fmax*tau/(2*np.pi*pulse.d)
    return ' '.join(fields), np.asarray(ref), 1e-3*floor


def main():
    rng = np.random.default_rng([20261001, 11, int(os.environ.get('VERIF_SEED', '0'))])
    quick = '--quick' in sys.argv or os.environ.get('FFV_TIER', 'thorough') == 'quick'
    cases = []
    kinds = ['random', 'idle', 'degenerate', 'diag', 'projector', 'unsorted', 'onepoint', 'zerospec']
    sels = ['none', 'sub', 'perm', 'single']
    for d in (2, 3, 4):
        for kind in kinds:
            for rank in (0, 1, 'ffd'):
                if rank == 'ffd' and kind in ('unsorted', 'onepoint', 'zerospec'):
                    continue
                for with_ncd in (False, True):
                    if quick and (d == 4 or (d == 3 and kind not in ('random', 'diag', 'projector'))):
                        continue
                    if d == 4 and kind not in ('random', 'diag', 'projector'):
                        continue
                    reps = 1 if (quick or d >= 3) else 2
                    for _ in range(reps):
                        nG = int(rng.integers(1, 5 if d < 4 else 3))
                        bk = ['pauli', 'ggm', 'units'][int(rng.integers(0, 3))]
                        if d == 4:
                            bk = 'pauli'
                        sn = sels[int(rng.integers(0, 4))]
                        sc = sels[int(rng.integers(0, 4))]
                        name = (f'rank{rank}-{kind}-d{d}-{"ncd" if with_ncd else "noncd"}-{bk}-G{nG}'
                                f'-n:{sn}-c:{sc}')
                        cases.append((name, rank, make_case(rng, d, nG, kind, bk, with_ncd, sn, sc, rank)))
    # every selection mode explicitly for both spectrum shapes (d = 2, with n_coeffs_deriv)
    for rank in (0, 1):
        for sn in sels:
            for sc in sels:
                if quick and sn != sc:
                    continue
                cases.append((f'rank{rank}-selection-d2-ncd-pauli-G3-n:{sn}-c:{sc}', rank,
                              make_case(rng, 2, 3, 'random', 'pauli', True, sn, sc, rank)))
    # repair of F49: n_coeffs_deriv AND noise operators with a trace (identity-component correction),
    # both spectrum shapes; 'diag' puts omega = 0 on the grid (truncated branch of the segment integral)
    for rank in (0, 1):
        for d in (2, 3):
            for kind in ('projector', 'diag'):
                for sn in (sels if not quick else ['none', 'sub']):
                    nG = int(rng.integers(1, 4))
                    bk = 'pauli' if d == 2 else 'ggm'
                    case = make_case(rng, d, nG, kind, bk, True, sn, sels[int(rng.integers(0, 4))], rank)
                    if kind == 'diag':
                        # make sure every noise operator has a trace
                        pulse = case[0]
                        if np.min(np.abs(np.einsum('ajj', pulse.n_opers))) < 1e-3:
                            continue
                    cases.append((f'rank{rank}-tracencd-{kind}-d{d}-G{nG}-n:{sn}', rank, case))
    reqs, refs, names, floors = [], [], [], []
    for name, rank, case in cases:
        r, ref, floor = request(case, rank)
        reqs.append(r)
        refs.append(ref)
        names.append(name)
        floors.append(floor)
    outs = driver(reqs)
    comp = {}
    worst = (0.0, None)
    bad = []
    for name, ref, o, floor in zip(names, refs, outs, floors):
        got = bits2arr(o[3:], ref.shape) if o.startswith('ok ') else (
            np.zeros(ref.shape) if o.strip() == 'ok' and ref.size == 0 else None)
        if got is None:
            err = np.inf
        elif np.max(np.abs(ref), initial=0.0) == 0.0:
            err = float(np.max(np.abs(got), initial=0.0))   # zero spectrum / one-point grid: exact 0
        elif got.shape != ref.shape or not np.all(np.isfinite(got)):
            err = np.inf
        else:
            err = float(np.max(np.abs(got - ref))/max(np.max(np.abs(ref)), floor, 1e-300))
        key = 'infidderiv ' + '-'.join(name.split('-')[:2])
        comp[key] = max(comp.get(key, 0.0), err)
        if err > TOL:
            bad.append((name, f'{err:.3e} ref={np.asarray(ref).ravel()[:6]} lean='
                        f'{None if got is None else np.asarray(got).ravel()[:6]}'))
        if err >= worst[0]:
            worst = (err, name)
    print(f'infidderiv: {len(reqs)} cases')
    for k in sorted(comp):
        print(f'{k:40s} max rel deviation {comp[k]:.3e}')
    for name, err in bad:
        print(f'MISMATCH infidderiv {name} {err}')
    print(f'worst: {worst[1]} {worst[0]:.3e}')
    ok = all(v <= TOL for v in comp.values())
    print('OK' if ok else 'FAIL')
    return 0 if ok else 1


if __name__ == '__main__':
    sys.exit(main())
