#!/bin/bash
# usage: verify_mutant.sh <worktree with mutant/ applied>  -> confirms demo fails with / passes without, suite passes with
W="$1"
cd "$W" || exit 9
echo "--- demo WITH change"; /venv/bin/python mutant/demo.py > /var/tmp/demo_with.log 2>&1; echo "exit $?"; tail -2 /var/tmp/demo_with.log
git -C "$W" apply -R mutant/patch.diff && { echo "--- demo WITHOUT change"; /venv/bin/python mutant/demo.py > /var/tmp/demo_without.log 2>&1; echo "exit $?"; tail -2 /var/tmp/demo_without.log; git -C "$W" apply mutant/patch.diff; }
echo "--- suite WITH change"
/venv/bin/python -m pytest -q -p no:cacheprovider --timeout=900 --continue-on-collection-errors -n 8 --junitxml=/var/tmp/mut-suite.xml > /var/tmp/mut-suite.log 2>&1
python3 - <<'PY'
import json, xml.etree.ElementTree as ET
base = set(json.load(open('/root/.vp/BASELINE.json'))['stable_pass'])
ok = set()
for tc in ET.parse('/var/tmp/mut-suite.xml').iter('testcase'):
    if not any(c.tag in ('failure', 'error', 'skipped') for c in tc):
        ok.add(f"{tc.get('classname')}::{tc.get('name')}")
print(f'baseline {len(base)} passed-with-change {len(ok & base)} missing {sorted(base - ok)}')
PY
rm -f "$W/.coverage" "$W/coverage.xml"
