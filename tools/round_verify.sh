#!/bin/bash
# usage: round_verify.sh <worktree>  — confirms a seeded change: demo fails with / passes without; pinned suite passes with it
W="$1"; T=$(basename "$W"); LOG=/var/tmp/verify-$T.log; : > "$LOG"
cd "$W" || exit 9
git -C "$W" diff --quiet -- filter_functions && { echo "NO CHANGE APPLIED" >> "$LOG"; exit 3; }
/venv/bin/python mutant/demo.py > /var/tmp/dw_$T.log 2>&1; echo "demo-with exit $?" >> "$LOG"
git -C "$W" diff -- filter_functions > /var/tmp/patch_$T.diff
git -C "$W" apply -R /var/tmp/patch_$T.diff && { /venv/bin/python mutant/demo.py > /var/tmp/dwo_$T.log 2>&1; echo "demo-without exit $?" >> "$LOG"; git -C "$W" apply /var/tmp/patch_$T.diff; }
cmp -s /var/tmp/patch_$T.diff mutant/patch.diff && echo "patch.diff matches worktree" >> "$LOG" || echo "patch.diff DIFFERS from worktree diff" >> "$LOG"
/venv/bin/python -m pytest -q -p no:cacheprovider --timeout=1800 --continue-on-collection-errors -n ${FFV_JOBS:-4} --junitxml=/var/tmp/ms_$T.xml > /var/tmp/ms_$T.log 2>&1
python3 - /var/tmp/ms_$T.xml >> "$LOG" <<'PY'
import json, sys, xml.etree.ElementTree as ET
base = set(json.load(open('/root/.vp/BASELINE.json'))['stable_pass'])
ok = set()
for tc in ET.parse(sys.argv[1]).iter('testcase'):
    if not any(c.tag in ('failure', 'error', 'skipped') for c in tc):
        ok.add(f"{tc.get('classname')}::{tc.get('name')}")
print(f'suite: baseline {len(base)} passed-with-change {len(ok & base)} missing {sorted(base - ok)}')
PY
rm -f "$W/.coverage" "$W/coverage.xml" /var/tmp/dw_$T.log /var/tmp/dwo_$T.log /var/tmp/ms_$T.xml /var/tmp/ms_$T.log /var/tmp/patch_$T.diff
cat "$LOG"
