#!/bin/bash
# usage: seeded_run.sh <patch.diff> <Cxx> [<Cyy> ...]   — applies the patch to /repo, runs the quick checks, reverts
set -u
P="$1"; shift
cd /repo && git apply --check "$P" || { echo "PATCH DOES NOT APPLY"; exit 3; }
git apply "$P"
for c in "$@"; do
  out=$(cd /verif && VERIF_SEED=${VERIF_SEED:-0} ./check $c 2>&1)
  echo "$out" | grep -E "^VIOLATION|failing input|-> exit" | cut -c1-260
done
git -C /repo checkout -- . 
git -C /repo status --short | grep -v "^??" | head -3
