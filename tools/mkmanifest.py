#!/usr/bin/env python3
"""Writes MANIFEST.json from the table below (kept in one place so it stays valid)."""
import json
import os

V = os.path.dirname(os.path.dirname(os.path.abspath(__file__)))
props = [json.loads(l) for l in open(os.path.join(V, 'properties.jsonl'))]

# property -> (technique, level text, level note, design ref) ; absent => not yet claimed
CLAIMS = {
    'C08': ('Lean 4 theorems: trapezoid rule (linear, non-negative), decay amplitudes = trapezoid of Re(conj(B) S B)/2pi for the three spectrum shapes and the memory-parsimonious loop, slices, trace-tensor completeness identities, infidelity = -tr K/d^2 on both branches of infidelity(), pulse-correlation infidelities sum to the total, total infidelity >= 0 for PSD spectra, the infidelity is a (Lipschitz) function of the selected control-matrix rows and the two branches agree on bases containing the identity (C08Inv); regenerated contractions and pins; correspondence; option-matrix search',
            'Machine-checked proof on executable models of util.integrate, _get_integrand, calculate_decay_amplitudes and infidelity (both branches, as the code is now) that the reported infidelity equals -tr K/d^2 of the cumulant function for every complete orthonormal Hermitian basis, that identifier subsets are slices, that pulse-correlation infidelities sum to the total and that the total is non-negative for PSD spectra; tie: regenerated integrand contractions, pins of the infidelity / decay-amplitude statements, correspondence of integrate and the trace tensor; search enumerates spectrum shapes, grids, options, cache histories and compares with independent numpy evaluations.',
            'The filter-function input path of _get_integrand, return_smallness and test_convergence are not modelled; option plumbing is validated by search.',
            'DESIGN.md §3 C08'),
    'C09': ('Lean 4 theorems: trace tensor entries, the eight generated contractions equal the documented commutator formula (first and second order), the single-qubit shortcut equals the general formula on the Pauli basis (symbolically) and not on other d=2 bases, second-order part antisymmetric, row/column of the identity element vanish, reality, exp(K) and exp(sum K) have the identity row and column of the unit matrix (trace preserving, unital; C09Exp); pins; correspondence; search incl. label independence, expm, TP/unital/CP',
            'Machine-checked proof that both evaluation paths of calculate_cumulant_function implement K = -1/2 sum Gamma tr(C_i[C_k,[C_l,C_j]]) - 1/2 sum Delta tr(C_i[[C_k,C_l],C_j]) (general path for every basis; shortcut exactly for the Pauli basis, which is now what the code selects), with the structural consequences (antisymmetric second order, vanishing identity row/column, and from it, with NormedSpace.exp, trace preservation and unitality of exp K and of the error transfer matrix of several noise sources); model executed against the package for both branches; search compares K with explicit commutator evaluation for every pair, checks label independence, ETM = expm(sum K), CP/cCP by Choi eigenvalues.',
            'Complete positivity of exp K is validated (Choi eigenvalues), not proved; expm is an oracle; the sparse COO path of the trace tensor is validated by search.',
            'DESIGN.md §3 C09'),
    'C18': ('Lean 4 theorems (core Lean): frame lemma over all histories for the declared write sets of 72 API calls, and exception safety of the cache machine: every raise point of every operation is a coherent state from which all later results are fresh (also for histories with failures and for several objects); declared write sets compared with fingerprint measurements of the whole API; fault injection compares real abort states with the Lean trace',
            'Machine-checked proof that (i) if every call writes only the cells its declared write set names (pulse caches, basis caches, fresh results) then no history changes caller arguments, pulse definitions or previously returned arrays, and (ii) every state in which a public cache operation can raise satisfies the cache-coherence invariant, so all subsequent requests are served fresh; the declared table is compared with SHA-256 fingerprints before/after every API call, real exceptions are injected into the numerical routines at their k-th call and the observed abort states must occur in the model trace; random histories with failing calls are compared with fresh pulses.',
            'Partial by nature: Python aliasing is measured, not proved; asynchronous exceptions (KeyboardInterrupt between two assignments) are outside the exception model (async_window_not_coherent shows the model is sharp).',
            'DESIGN.md §3 C18'),
    'C03': ('Lean 4 theorems: Hamiltonian bookkeeping of concatenation (errors iff documented, one row per distinct operator, coefficients placed per pulse block, identifier mappings, zero / constant fill) on an abstract model; n-pulse algebra: the from-atomic control matrix with cumulative phases and Liouville propagators equals the from-scratch control matrix of the sequenced pulse for a complete basis (all pulse / segment counts), pulse-correlation filter functions sum to the total, regrouping; correspondence on abstract pulses and on atomic data; option x cache-state search',
            'Machine-checked proof (i) on the discrete model of _concatenate_Hamiltonian run against the real function on abstract pulses, and (ii) on the numerical model (regenerated contractions, cm_entry) that concatenation of any list of pulses reproduces the from-scratch control matrix of the sequenced pulse for complete bases, that pulse-correlation contributions are the from-scratch matrices of the individual pulses in place and sum to the total, and that regrouping does not matter; the decision logic of concatenate (options, cache states, frequencies known or not) is covered by the search, which compares every result with a freshly built sequenced pulse.',
            'The option/cache decision logic of concatenate is a Lean model of its own (ConcatLogic, theorems C03d: grid soundness, forced calculations never skipped, automatic mode iff, route selection, exception classes) tied by a correspondence that realises abstract inputs with real pulses and observes the route with counting wrappers; completeness of the basis is a hypothesis of the algebraic theorems (the code recomputes from scratch for incomplete bases); identifier suffix collisions are an open finding (F26).',
            'DESIGN.md §3 C03'),
    'C05': ('Lean 4 theorems (Kronecker algebra over Mathlib): tensor-sum eigen-decomposition satisfies the eigh contract, propagators factorise, control matrix of B (x) 1 in a product basis is sqrt(d_rest) B at the identity column and 0 elsewhere (on the control-matrix model, all masks), full filter-function matrix incl. cross blocks; index link to equivalentPauli; search vs directly built tensor-product pulses over all assignments / cache states / options',
            'Machine-checked proof of the extension rules used by extend for the binary split (one pulse vs the rest of the register) on the same control-matrix model as C01, including that cross-correlation blocks are sqrt(d1 d2) conj(B1_a0) B2_b0 and in general non-zero; the qubit-list parsing and attribute merging of extend are covered by a search that compares extend with the tensor-product pulse built directly for all assignments of 1-3 single/two-qubit pulses to registers of <= 3 (thorough 4) qubits, every cache state and option value.',
            'extend\'s qubit bookkeeping and _merge_attrs/_insert_attrs are validated, not proved; n-fold extension follows from the binary rule plus C06 but is not stated as one theorem.',
            'DESIGN.md §3 C05'),
    'C06': ('Lean 4 theorems: reindexing by a permutation of tensor factors is a *-algebra isomorphism (eigen-decomposition, propagators, Liouville representation, control matrix, filter function carried over by the index permutation = remapPauli), argsort bookkeeping of identifiers, composition and identity laws; search over all permutations',
            'Machine-checked proof that every cached attribute remap carries over is the reindexed one and equals the attribute of the rebuilt pulse, that the Pauli index permutation is the one computed by remap_pauli_basis_elements (model compared with the real function for all permutations n <= 4), that the identifier re-sorting permutes rows as claimed and that remaps compose; search: all permutations for n = 2,3 (4), identifier maps that change the sort order, non-traceless operators, every cache state, vs the rebuilt permuted pulse.',
            'identifier-mapping dictionaries of remap are validated by search; non-Pauli / incomplete bases: remap keeps the cached filter function, wrong only for incomplete bases not invariant under the permutation (noted in DESIGN).',
            'DESIGN.md §3 C06'),
    'C11': ('Lean 4 theorems on the gradient kernels: A_mat = integral of e^{ixs} with truncation bound and finite value on degenerate pairs, every branch of _derivative_integral = nested integral with explicit error bounds (and the grey-zone counterexample), filter-function derivative = 2 Re sum conj(B) dB is the derivative, linearity/slicing of the infidelity derivative; bit-pattern correspondence; finite-difference search',
            'Machine-checked proof of the integral kernels, of the filter-function derivative formula (HasDerivAt) and of the selection/integration algebra; the perturbative assembly is tied by correspondence of the kernels and validated end to end by 4th-order finite differences of the package\'s own filter function and infidelity on pulses with idle/degenerate segments, zero amplitudes, identifier subsets and sensitivity derivatives.',
            'Partial: the assembly of the control-matrix derivative is validated, not proved. Open findings F12 (division by a zero sensitivity) and F30 (grey zone of the absolute masks).',
            'DESIGN.md §3 C11'),
    'C14': ('Lean 4 theorems: Pauli basis for every n and GGM basis for every d are orthonormal, Hermitian, complete, identity first, rest traceless; Kronecker closure; expansion is the inverse of reconstruction, real for Hermitian M, closed-form GGM expansion = generic; from_partial properties under the null_space contract; flags sound; models executed against the package exactly',
            'Machine-checked proof for all n / d of the constructed bases and of the expansion identities on executable models that reproduce Basis.pauli / Basis.ggm / expand / ggm_expand / the flags exactly (1e-12) on the compared inputs; from_partial is proved correct given the contract of scipy.linalg.null_space; search checks Gram matrices, ranks, containment, labels, rejections and flags near their tolerances.',
            'null_space and matrix_rank are oracles. Open findings pinned by the repository\'s own tests: F15 (label shift) and F16 (isorthonorm of a single unnormalised element).',
            'DESIGN.md §3 C14'),
    'C17': ('Lean 4 theorems on a discrete model of _parse_Hamiltonian / _join_equal_segments / __eq__ / slicing: sorted storage keeps each operator with its coefficients and identifier, default identifiers distinct for every count, equality is an equivalence that holds iff the merged descriptions denote the same step functions, detects every single-feature difference, slices are sub-sequences; correspondence on abstract pulses; search on real pulses',
            'Machine-checked proof on the discrete model, which is run against the real functions on thousands of abstract pulses (operators = fixed distinct matrices, integer data) with exact agreement; search on random real pulses: one-feature variants are unequal, re-segmentations equal, symmetry / transitivity, equal pulses have equal filter functions, slices, deep copies share no memory.',
            'np.allclose on durations is modelled as exact equality (so transitivity is proved for exact comparison); zero-length segments are not merged by __eq__ (stated in the theorems); Python object aliasing is measured, not proved.',
            'DESIGN.md §3 C17'),
    'C02': ('Lean 4 theorems over the executable model of numeric.diagonalize / PulseSequence.t, tau, propagator_at_arb_t: spectral form = matrix exponential under the eigh contract, cumulative propagators = time-ordered product, unitarity, times = cumulative sums (also for appended / tiled durations), arbitrary-time propagator incl. both-sided edge behaviour; regenerated contractions; correspondence',
            'Machine-checked proof for every dimension, segment count and duration that, given an eigendecomposition satisfying the eigh contract, the modelled propagators are exp(-i H dt) products, unitary, start at 1, end in the total propagator, that times/tau are cumulative sums (additive under concatenation, G-fold under tiling) and that propagator_at_arb_t selects the right segment and returns exp(-i H_g (t - t_g)) Q_g with left and right limits at every edge; the model runs on the package\'s own eigh output and is compared with the package at every edge, inside segments and beyond tau; the search checks the eigh contract residuals and compares with scipy expm.',
            'LAPACK eigh is an oracle (contract measured, not proved); floating point not modelled; times of pulses produced by extend/remap are covered by search only.',
            'DESIGN.md §3 C02'),
    'C10': ('Lean 4 theorems: every branch of the second-order kernel equals the nested integral for all real frequencies and splittings (exact arithmetic), limit/bound between branches, integration-by-parts identity, assembly = documented sum, F2 + F2^dagger = F1 end to end for the model; source pins; bit-pattern correspondence; known finding F9 (floating-point cancellation near resonances)',
            'Machine-checked proof that the modelled _second_order_integral equals the documented nested integral in all three cases for every real input, that the modelled assembly of calculate_second_order_filter_function computes the documented segment sum and satisfies F2_ab,kl + conj F2_ba,lk = conj(B_ak) B_bl; the model is tied to numeric.py by pins of the function bodies / masks, the regenerated contractions and a bit-pattern correspondence run (bit-identical kernel); the search compares the package with an independent, cancellation-free evaluation of the nested integral, checks F2+F2^dagger=F1, cached vs uncached intermediates and frequency shifts.',
            'Exact-arithmetic theorems cannot see the catastrophic cancellation close to (not on) resonances: that genuine defect is found by the search and listed as open known finding F9.',
            'DESIGN.md §3 C10'),
    'C12': ('Lean 4 theorems on the control-matrix model: invariance under per-segment energy offsets (with arbitrary unit phases on the propagators), covariance under change of basis B\' = B O^T and invariance of the fidelity filter function for isometric O, invariance under conjugation of all operators by one unitary; search on the implementation',
            'Machine-checked proof, for all dimensions / segments / frequencies and both branches of the small-denominator guard, that the modelled control matrix is unchanged by energy offsets and frame changes and transforms linearly under a change of basis so that the fidelity filter function is basis independent; search compares pairs of bases (GGM, Pauli, rotated, completed-from-partial, non-traceless), offsets up to 1e6 and random frames on filter functions, infidelities, error transfer matrices and process fidelity.',
            'Infidelity-level invariance (energy offsets, frames, any two complete orthonormal Hermitian bases on either branch of infidelity()) is proved in module C08Inv; the error-transfer-matrix level rests on C09 theorems plus search; expm is an oracle.',
            'DESIGN.md §3 C12'),
    'C13': ('Lean 4 theorems on the control-matrix model: splitting identity of the segment integral and of whole segments (exact in the closed-form branch, explicit 2e-7*duration bound otherwise), zero-duration segments contribute nothing, operator permutation = row permutation, time-unit covariance for the dimensionless guard read from source (and its failure for an absolute guard), linearity; search on the implementation',
            'Machine-checked proof for all pulses that re-segmentation, zero-length segments and operator order leave the modelled control matrix unchanged (up to the proved truncation bound), that rescaling the time unit by any lambda != 0 multiplies it by lambda and the filter function by lambda^2 for the guard shape the translator reads from numeric.py on every run, and that it is linear in noise operators and sensitivities; metamorphic search on the real package with lambda = 1e-9..1e9.',
            'Floating point not modelled; the infidelity-level statements (split with error bound, zero-length segments, operator permutation, time unit with S\'(w/lambda) = lambda S(w)) are theorems of module C08Inv.',
            'DESIGN.md §3 C13'),
    'C16': ('Lean 4 theorems (core Lean, index arithmetic): admissible position range, insert / merge / transpose produce exactly the numpy.insert / permutation order for all chains and positions, dims bookkeeping harmless, mixed-radix bijection, Pauli index maps for all n; exhaustive correspondence and product comparison on the implementation',
            'Machine-checked proof for all chain lengths, ranks, positions and permutations that the modelled tensor_insert / tensor_merge / tensor_transpose yield the documented factor order or the documented exception, and that equivalent/remap Pauli index maps are the row-major index maps they should be; the model interprets the subscripts exactly as util.py builds them and is compared with the real functions (product of the predicted factor order vs actual result, exception classes) over an exhaustive enumeration of small chains with heterogeneous dimensions, plus an independent numpy.insert oracle.',
            'numpy einsum/reshape semantics are trusted; chains beyond 52 subscript letters are outside the model.',
            'DESIGN.md §3 C16'),
    'C04': ('Lean 4 theorems (both branches of the periodic control matrix equal the finite geometric series for every G>=1, every frequency, every tolerance; equality with the repetition sum) over the executable model + source pin of calculate_control_matrix_periodic + correspondence',
            'Machine-checked proof that the solve branch (under the contract of linalg.solve and det != 0) and the explicit-sum fallback of calculate_control_matrix_periodic both equal sum_{g<G} T^g, and that B times that sum is the repetition sum formed by concatenating G copies; the model is tied to numeric.py by a translator pin of the function body, the regenerated contraction of calculate_control_matrix_from_atomic and a correspondence run at singular and near-singular frequencies; failing-input search compares concatenate_periodic with G-fold concatenation and with the tiled pulse from scratch.',
            'linalg.solve/det are oracles with stated contracts; floating-point conditioning near singular frequencies is measured (1e-6), not proved; equality of the repetition sum with the from-scratch control matrix of the tiled pulse rests on C03/C15 (liouville_transfer, liou_mul).',
            'DESIGN.md §3 C04'),
    'C15': ('Lean 4 theorems from the completeness (swap) identity: Liouville entries, realness, L(1)=1, multiplicativity, orthogonality, transfer lemma, Choi matrix of a unitary is rank-one PSD, transposition is not CP, verdict soundness; model = regenerated contractions + expand; correspondence',
            'Machine-checked proof, for every dimension, every complete orthonormal Hermitian basis and every (stack element) unitary, that the modelled liouville_representation has entries tr(C_i U C_j U^dagger), is real, maps 1 to 1, is multiplicative and orthogonal, that the .real cast loses nothing, that liouville_to_choi of a unitary channel is v v^dagger (PSD) and that of transposition has a negative direction; tie: regenerated einsum definitions, pinned wiring/bodies of the four functions, correspondence at doubles; search covers the d>12 closed-form path, stacks, pulses and CP/cCP verdicts on Kraus/Lindblad data.',
            'eigh of the Choi matrix is an oracle; the closed-form GGM expansion for d>12 and the Lindblad cCP direction are validated by search only.',
            'DESIGN.md §3 C15'),
    'C19': ('Lean 4 theorems: the shipped closed forms FID, SE, PDD (both parities), CPMG (both parities), UDD and CDD (induction on the level) equal |y|^2/2 of the sign-flip sequence for every order and every z away from removable singularities; model executed for correspondence with analytic.py',
            'Machine-checked proof over the reals that each function of analytic.py (modelled operation by operation and run against the Python on the same inputs) equals the dephasing filter function times omega^2 of the ideal sign-flip sequence with the family\'s flip times, for all n (g); the search compares the numerical engine on exact sign-flip pulses and on finite-width pi pulses with the shipped expressions.',
            'The identification of the package filter function for B=sigma_z/2, H_c=0 with |y|^2/(2 omega^2) is now a theorem about the control-matrix model of C01 (module C19Engine: engine_eq_ddF and engine_fid/se/pdd/cpmg/udd/cdd, with the guard read from the source); finite-width pulses and Float sin/cos/tan vs real functions are validated, not proved.',
            'DESIGN.md §3 C19'),
    'C20': ('Lean 4 theorems over executable validators that mirror the order of the checks in the source (valid => accepted; rejected <=> not valid; every rejection explained by a catalogued corruption of the reported class) + options table regenerated from the decorators + model-vs-implementation correspondence on abstract inputs + corruption search on real inputs',
            'Machine-checked proof, for all abstract inputs (operator kinds and shapes, coefficient lengths, identifiers, durations, bases, cache / frequency states, qubit assignments), that the modelled validators of the constructors, parse_spectrum, identifier and option look-up, Basis, slicing, concatenate, extend / remap, the pulse-correlation getters and the small argument checks accept exactly the documented domain and raise the documented class otherwise (under explicit regularity hypotheses that exclude the recorded disagreements between code and documentation); the model is run against the real functions on thousands of structured requests per run (exception class and parsed output), the option table is regenerated from the decorators, and a catalogue of single corruptions / untouched valid inputs is applied to real random inputs.',
            'Arrays are abstracted to shapes and byte/value identities; numpy shape rules are validated by the correspondence; the theorems hold under HamRegular/ArgsRegular/... hypotheses, the excluded inputs are recorded findings.',
            'DESIGN.md §3 C20'),
    'C07': ('Lean 4 invariant proof over all finite histories of public calls on a pulse and its copies (cache state machine with cleanup sets regenerated from source) + model-vs-implementation correspondence on seeded histories',
            'Machine-checked proof (Lean 4 kernel, core only) that every public operation preserves cache coherence, that in every reachable state a request for grid g returns a value computed for exactly g from ingredients of g and never an error, and that the answer equals the one of a fresh pulse; the state machine is tied to pulse_sequence.py by the regenerated cleanup/alias/intermediates sets and by running the model and the real objects on the same histories, comparing the 19 cache fields after every call; every returned array is compared with a freshly constructed pulse.',
            'Cached arrays are abstracted to the grid they were computed for; Python aliasing of arrays between copies and the numerical kernels themselves are covered by measurement (comparison with fresh pulses), not by the theorem.',
            'DESIGN.md §3 C07'),
    'C01': ('Lean 4 theorems over the executable model (exact segment integral, truncation bound '
            'with the guard read from source, filter-function algebra) + translator-regenerated '
            'einsum/guard definitions + model-vs-implementation correspondence',
            'Machine-checked proof (Lean 4 kernel) that every entry of the first-order integral is '
            'within 1e-7*dt of the defining integral for the guard shape and threshold the '
            'translator reads from numeric.py on every run, that the filter functions are '
            'conj(B)B / its trace, Hermitian and positive semidefinite; the executed model is tied '
            'to numeric.py by regenerated contractions and by a bit-pattern correspondence run; a '
            'failing-input search against an independent evaluator of the defining integral '
            'produces the replay when an obligation or the tie breaks.',
            'Theorems are over exact real/complex arithmetic and the model; IEEE rounding, LAPACK '
            'eigh and numpy broadcasting are measured by the correspondence/search, not proved.',
            'DESIGN.md §3 C01'),
}
# round of 2026-10-01: what was added per property (technique suffix, level-text suffix, new level note or None)
ADDENDA = {
    'C01': ('; independence of the control matrix, filter functions and infidelity of WHICH eigh output is used (module C01Unique)',
            ' The modelled control matrix is proved to be the same array for any two eigen-decompositions satisfying the eigh contract (phases, bases of degenerate eigenspaces, order of eigenvalues), for every guard kind and threshold, so LAPACK\'s freedom cannot show in any result.',
            None),
    'C16': ('; numerical level (model TensorNum, module C16Kron): util.tensor = iterated Kronecker product, tensor_transpose of the formed product = product of the permuted factors',
            ' The numerical results of tensor / tensor_transpose / tensor_insert / tensor_merge are modelled on shape + buffer arrays and run bit-identically against the package; the chain and transpose theorems are proved for all chains of matrices of arbitrary shapes.',
            'for rank 2 without broadcast axes the numerical theorems cover tensor, tensor_transpose, tensor_merge and tensor_insert (sequence and integer positions; modules C16Kron, C16KronIns, C16KronLoop); rank != 2 and broadcast axes are outside the numerical model (factor order proved only); chains beyond 52 subscript letters are outside the model.'),
    'C17': ('; bridge to the numeric models (module C17Bridge): pulses equal under the model of __eq__ have equal propagators, control matrices and filter functions',
            ' The last clause of the property is now a theorem: equality under the model of __eq__ implies the same Hamiltonian function and hence equal propagators at all common edges, equal control-matrix rows (matched by identifier) and equal filter functions, each pulse with its own eigh output.',
            None),
    'C19': ('; finite-width pi pulses (module C19Width): explicit O(w) bound on the control matrix and the limits w -> 0 to the closed forms (SE, PDD, CPMG, UDD of every order)',
            ' The second sentence of the property is a theorem for the control-matrix model: for n rectangular pi pulses of width w the control matrix differs from the ideal one by at most n w (|tr(B C_k)| + |B|_F |C_k|_F), hence omega^2 F_w tends to the shipped closed forms as w -> 0+.',
            'CDD with finite-width pulses is not covered by the limit theorem; the engine at doubles is validated by the correspondence of C01.'),
    'C02': ('; times and propagators of concatenated / tiled / remapped / extended pulses (modules C04Tile, C06Def)',
            ' Times, duration and cumulative propagators of concatenated and periodically repeated pulses (any number of pulses, each with its own eigh output) and the times of remapped / extended pulses are theorems about the models Tile / RemapDef, which are run against the real functions.',
            'LAPACK eigh is an oracle (contract measured, not proved); floating point not modelled (the search runs every oracle in units of time from 1e-9 to 1e9).'),
    'C03': ('; Hamiltonian, times, cumulative and total (Liouville) propagators of the sequenced pulse = ordered products of the inputs\' (module C04Tile, model Tile)',
            ' The total propagator and the cumulative Liouville propagators that concatenate stores are proved equal to the from-scratch quantities of the sequenced pulse for any number of pulses.', None),
    'C04': ('; Hamiltonian, times, propagators Q_{kn+j} = Q_j Q_n^k, total propagator = matrix_power (NumPy\'s binary decomposition modelled), Liouville total propagator = L^G, identity total propagator at resonant frequencies (module C04Tile)',
            ' Everything concatenate_periodic stores for the definition and propagator part equals the from-scratch quantities of the tiled pulse (concatPeriodicDef_eq_from_scratch), for every G >= 1, including pulses whose total propagator is the identity (the solve contract cannot be met there and the fallback gives G*1).',
            'linalg.solve/det are oracles with stated contracts; floating-point conditioning near singular frequencies is measured (1e-6), not proved.'),
    'C05': ('; definition part of extend on abstract pulses (model RemapDef, module C06Def): identifier mappings, operator placement, additional noise Hamiltonian by identifier, times, exact error classes',
            ' The Hamiltonian bookkeeping of extend (which operator, coefficient row and identifier end up where; default and given identifier mappings; additional noise Hamiltonian looked up by identifier; rejections) is a Lean model run against the real function; it exposed defect F48 (duplicate identifiers after mapping), repaired. The n-fold extension rule is now one theorem (modules C05Nfold / C05NfoldAsm, model ExtendAsm): for any number of pulses on arbitrary interleaved ascending qubit tuples plus idle qubits, the control matrix and every block of the filter function that extend assembles equal the from-scratch quantities of the tensor-product pulse.',
            'The register arrays handed to the n-fold theorems being the flattened Kronecker products (the einsum content of _merge_attrs/_insert_attrs) is a hypothesis, validated by correspondence; non-ascending multi-qubit tuples go through remap first (C06).'),
    'C06': ('; definition part of remap on abstract pulses (model RemapDef, module C06Def): identifier mapping, argsort order, association of operators / coefficients / identifiers, composition, identity, cached rows follow the new noise-operator order',
            ' The identifier mapping of remap is now modelled and proved (remapDef_keeps_association, remapDef_compose, remap_cached_rows_follow_noise_order) and run against the real function.',
            'np.argsort on strings is stable only up to 16 elements (observed); after the repair of F48 tied identifiers are rejected; non-Pauli / incomplete bases: remap keeps the cached filter function, wrong only for incomplete bases not invariant under the permutation (noted).'),
    'C08': ('; every branch of _get_integrand (models Integrand / IntegrandShape): filter-function path = control-matrix path, correlations sum to the total, exactly the documented rejections (module C08Integrand)',
            ' The filter-function input path of _get_integrand is now modelled and proved equivalent to the control-matrix path (also inside the memory-parsimonious loop and for pulse correlations), so the reported numbers cannot depend on whether a generalized filter function happens to be cached.',
            'return_smallness and test_convergence are not modelled; option plumbing beyond the path selection is validated by search.'),
    'C09': ('; conditional complete positivity of the first-order cumulant function and of every Lindblad generator (projected Choi matrix PSD), second order = unitary part, complete positivity of exp(K) (Euler limit in a Banach algebra + closed cone of CP maps), verdicts of liouville_is_CP / liouville_is_cCP under the eigenvalue oracle (modules C09cCP, C09EtmCP, C09EtmCPLiou, C09EtmChoi)',
            ' For every complete orthonormal Hermitian basis containing a multiple of the identity and every real symmetric positive-semidefinite matrix of decay amplitudes, the first-order cumulant function passes the package\'s cCP test and the error transfer matrix exp(K) (also with the second-order part, also for sums over noise sources) has a positive-semidefinite Choi matrix, i.e. passes liouville_is_CP; the function error_transfer_matrix itself is modelled up to the expm oracle (module C09EtmFn: what is exponentiated, both input modes, rejections, error_transfer_matrix_physical end to end; modules C09EtmFnShapes / C09EtmFnCross: all three spectrum shapes, and the positive semidefiniteness of the summed decay amplitudes is derived from a non-negative / Hermitian positive-semidefinite spectrum on a sorted grid, so that no hypothesis on the decay amplitudes is left).',
            'expm and the eigenvalue routine are oracles; complete positivity is proved for real symmetric PSD decay amplitudes (what the package forms for PSD spectra) — for a complex Hermitian matrix the statement is false; the sparse COO path of the trace tensor is validated by search.'),
    'C10': ('; model of calculate_frequency_shifts (three spectrum shapes, subsets): entries, slices, linearity, dependence on the F2 values only (reuse of intermediates), Hermitian part = decay amplitudes (module C10Shifts)',
            ' The frequency shifts are proved to be the trapezoid of S x F2 / 2 pi and to depend only on the second-order filter function values, so reusing cached intermediates that equal the fresh ones cannot change them.', None),
    'C11': ('; the array assembly of the control-matrix derivative (model GradientAsm: tensor / diagonal / F-order reshapes / einsums / sensitivity term / Liouville derivative) equals the product-rule formula and HasDerivAt the control-matrix model (modules C11Asm, C11AsmDeriv)',
            ' The assembled control-matrix derivative is proved to be the derivative (HasDerivAt) of the control-matrix model with respect to each control amplitude on each segment, with and without control-dependent sensitivities, and composed with the filter-function derivative formula and with the trapezoid integration (module C11Infid: infidelity_derivative is the derivative of the infidelity the package reports, also with control-dependent sensitivities and noise operators with a trace — after the repair of F49, which this proof exposed); the assembly model is run against calculate_derivative_of_control_matrix_from_scratch on the pulse\'s own eigen-data.',
            'The derivative theorems exclude the grey zones of the absolute masks by hypothesis (open findings F12: division by a zero sensitivity, F30: grey zone); reuse of cached intermediates is covered by C07 and the search; 3-d spectra in infidelity_derivative are outside the per-operator shapes and not modelled.'),
    'C13': ('; the same invariances for the SECOND-order filter function and the frequency shifts (modules C13Second, C13SecondShifts, C13SecondRefine), independence of the eigh output (C01Unique)',
            ' For the second-order filter function model: factor lambda^2 under a change of the time unit (the exact-zero masks are scale invariant), invariance under zero-length segments, splits, merges and arbitrary refinements (Hermitian operators), operator order, bilinearity in the sensitivities; each re-segmented pulse may come with its own eigh output.',
            None),
    'C20': ('; extend / remap with identifier mappings in the Validate model (control identifiers, KeyError for incomplete mappings, duplicate identifiers after mapping — F48)',
            ' After the repair of F48 the validators of extend and remap include the identifier mappings: a mapping is accepted iff it is complete and yields unique control and noise identifiers.',
            None),
    'C12': ('; frequency shifts and second-order filter function under a change of basis, error transfer matrix with second order from pulse data (module C10Shifts)',
            ' The second-order part is now included end to end: K\' = O K O^T and exp(sum K\') = O exp(sum K) O^T from the pulse data, for any two complete orthonormal Hermitian bases.', None),
    'C15': ('; Kraus <-> Choi (cp_iff_kraus), closure of the CP cone under sums, products and limits, exp of a Lindblad generator is CP, convex mixtures CP, negative Kraus weight not CP with an explicit tolerance bound, Lindblad generators pass / non-Lindblad generators fail the cCP test, closed-form Gell-Mann path = generic path for every d, stacks, total Liouville propagator = product (modules C15CP, C09cCP)',
            ' The verdicts are now theorems about models of liouville_is_CP / liouville_is_cCP (up to the eigenvalue oracle): positive for unitary channels, their convex mixtures and every Lindblad generator, negative for maps with a negative Kraus weight and generators with a negative rate; the closed-form expansion path for large d is proved equal to the generic one.',
            'The eigenvalue routine is an oracle; the comparison basis == Basis.ggm(d) that selects the closed-form path is an input flag of the model.'),
}
for _k, (_t, _x, _n) in ADDENDA.items():
    t0, x0, n0, r0 = CLAIMS[_k]
    CLAIMS[_k] = (t0 + _t, x0 + _x, _n if _n is not None else n0, r0)

NOT_YET = 'not claimed yet in this round: model/theorems for this property are still being built'

checks, na = [], []
for p in props:
    i = p['id']
    if i in CLAIMS:
        tech, text, note, ref = CLAIMS[i]
        checks.append({
            'property_id': i,
            'quick_cmd': f'./check {i} --tier quick',
            'thorough_cmd': f'./check {i} --tier thorough',
            'evidence_file': f'evidence/{i}.json',
            'replay_cmd_template': f'./check {i} --replay {{path}}',
            'engine': 'ffverif-lean',
            'level_claimed': {'category': 'proof', 'text': text, 'design_ref': ref},
            'level_note': note,
            'technique': tech,
        })
    else:
        na.append({'property_id': i, 'reason': NOT_YET})

man = {
    'version': 1,
    'setup_cmd': 'cd /verif && PYTHONPATH=tools /venv/bin/python -m ffv.translate && cd lean && lake build FFVerif',
    'hooks': {
        'guard': 'FILTER_FUNCTIONS_VERIF',
        'enable': 'no source hooks are needed: every observable is reachable through public '
                  'attributes; checks import /repo\'s working tree directly (sys.path[0]=/repo)',
        'baseline_off_cmd': 'cd /repo && /venv/bin/python -m pytest -ra -q -p no:cacheprovider '
                            '--timeout=900 --continue-on-collection-errors',
        'source_commits': [],
        'add_only': True,
    },
    'engines': [{
        'name': 'ffverif-lean', 'path': 'lean',
        'serves_properties': [c['property_id'] for c in checks],
        'kind_free_text': 'Lean 4 project (model + theorems), Python translator tools/ffv/translate.py '
                          'regenerating lean/FFVerif/Gen from /repo, correspondence harness and '
                          'failing-input search tools/ffv, CLI ./check',
    }],
    'checks': checks,
    'not_applicable': na,
    'notes': 'Known findings: known_findings.json. Fix commits in /repo start with "fix:". '
             'See DESIGN.md for the trusted base and per-property theorem lists.',
}
with open(os.path.join(V, 'MANIFEST.json'), 'w') as f:
    json.dump(man, f, indent=1)
print('checks', len(checks), 'not_applicable', len(na))
