#!/bin/bash
# usage: round_run.sh <worktree with mutant/ applied> <Cxx> [<Cyy> ...]
#   1. confirms the change (demo fails with / passes without; pinned suite passes with it)  [skipped with SKIP_VERIFY=1]
#   2. runs the quick checks against the worktree (FFV_REPO=<worktree>; /repo itself is not touched)
W="$1"; shift
LOG=/var/tmp/round-$(basename "$W").log
: > "$LOG"
if [ "${SKIP_VERIFY:-0}" != 1 ]; then
  cd "$W" || exit 9
  git -C "$W" diff --quiet -- filter_functions && { echo "NO CHANGE APPLIED in $W" | tee -a "$LOG"; exit 3; }
  echo "--- demo WITH change" >> "$LOG"; /venv/bin/python mutant/demo.py > /var/tmp/demo_with_$$.log 2>&1; echo "demo-with exit $?" >> "$LOG"; tail -2 /var/tmp/demo_with_$$.log >> "$LOG"
  git -C "$W" diff -- filter_functions > /var/tmp/patch_$$.diff
  git -C "$W" apply -R /var/tmp/patch_$$.diff && { /venv/bin/python mutant/demo.py > /var/tmp/demo_without_$$.log 2>&1; echo "demo-without exit $?" >> "$LOG"; tail -2 /var/tmp/demo_without_$$.log >> "$LOG"; git -C "$W" apply /var/tmp/patch_$$.diff; }
  /venv/bin/python -m pytest -q -p no:cacheprovider --timeout=1800 --continue-on-collection-errors -n ${FFV_JOBS:-6} --junitxml=/var/tmp/mut-suite_$$.xml > /var/tmp/mut-suite_$$.log 2>&1
  python3 - /var/tmp/mut-suite_$$.xml >> "$LOG" <<'PY'
import json, sys, xml.etree.ElementTree as ET
base = set(json.load(open('/root/.vp/BASELINE.json'))['stable_pass'])
ok = set()
for tc in ET.parse(sys.argv[1]).iter('testcase'):
    if not any(c.tag in ('failure', 'error', 'skipped') for c in tc):
        ok.add(f"{tc.get('classname')}::{tc.get('name')}")
print(f'suite: baseline {len(base)} passed-with-change {len(ok & base)} missing {sorted(base - ok)}')
PY
  rm -f "$W/.coverage" "$W/coverage.xml" /var/tmp/*_$$.log /var/tmp/*_$$.xml /var/tmp/patch_$$.diff
fi
for c in "$@"; do
  out=$(cd /verif && FFV_REPO="$W" VERIF_SEED=${VERIF_SEED:-0} ./check $c 2>&1)
  echo "=== check $c (exit $?)" >> "$LOG"
  echo "$out" | grep -E "^VIOLATION|^KNOWN-FINDING|failing input|broken|-> exit|obligation" | cut -c1-300 | head -12 >> "$LOG"
done
cat "$LOG"
