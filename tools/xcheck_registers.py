import sys
import os
sys.path.insert(0, os.environ.get('FFV_REPO', '/repo'))
"""
Cross-check of the Lean model of the register bookkeeping of `extend`
(FFVerif/Model/Registers.lean; driver requests `registers`, `reg_merge`, `reg_insert`,
`reg_bisect`, `reg_insort`) against the real helpers `_merge_attrs` / `_insert_attrs` and against
the real `extend`.

Part A  the helpers in the order `extend` calls them (multi-qubit blocks, single qubits, idle
        qubits as `list(all_qubits.difference(active_qubits))`), `d_per_qubit = 2`, on random
        disjoint blocks, N <= 6 (plus a few N = 9, 10 runs where CPython lists the idle qubits out
        of order, and runs with blocks that are NOT ascending).  Every qubit q carries its own random
        2x2 factor F[q] (also the idle ones, so that every position can be read off).  The factor
        order of the result is READ OFF position by position by partial traces, confirmed with
        kron(F[chain]), and compared, with the final `registers`, with the driver's answer.
Part B  single calls of the helpers / of bisect, insort on arbitrary states (unsorted registers,
        duplicate register entries, unsorted blocks, wrong len(registers) >= 1), exceptions
        included.  (An EMPTY register list that is not None is outside the model: the helpers
        then call `arr.reshape()` without a shape, TypeError for 2-d arrays; `extend` never
        produces it.)
Part C  the real `extend` on random assignments of 1-, 2- and 3-qubit pulses (N <= 4, qubit
        tuples in any order): every control operator, `eigvecs`, `propagators` and
        `total_propagator` of the result must equal the operator embedded at its qubits / the
        product of the embedded factors, i.e. the tensor product in ascending qubit order
        (reference: transposition of kron(O, 1), independent of tensor_insert / tensor_merge), and
        the driver must answer `0,...,N-1` for the same assignment.

Usage: /venv/bin/python xcheck_registers.py [n_A=600] [n_B=600] [n_C=60] [seed=1]
Prints counts and mismatches; exit status 0 iff there is no mismatch.
"""
import bisect
import functools
import random
import subprocess
import warnings

import numpy as np

import filter_functions as ff
from filter_functions import util
from filter_functions.pulse_sequence import _insert_attrs, _merge_attrs

warnings.simplefilter('ignore')

LEAN_DIR = os.path.join(os.path.dirname(os.path.dirname(os.path.abspath(__file__))), 'lean')
N_A = int(sys.argv[1]) if len(sys.argv) > 1 else 600
N_B = int(sys.argv[2]) if len(sys.argv) > 2 else 600
N_C = int(sys.argv[3]) if len(sys.argv) > 3 else 60
SEED = int(sys.argv[4]) if len(sys.argv) > 4 else 1
rnd = random.Random(SEED)
rng = np.random.default_rng(SEED)


# ---------------------------------------------------------------------------------------------
def show(l):
    return ','.join(str(x) for x in l) if len(l) else '_'


def show_blocks(bs):
    return ';'.join(show(b) for b in bs) if len(bs) else '_'


def kron(*ops):
    return functools.reduce(np.kron, ops)


def make_factors(labels):
    """distinguishable random 2x2 factors with trace 1"""
    F = {}
    for q in labels:
        A = rng.standard_normal((2, 2)) + 1j*rng.standard_normal((2, 2))
        A += (2.5 + q)*np.eye(2)
        F[q] = A/np.trace(A)
    return F


def read_off_chain(R, F):
    """factor order of the Kronecker chain R, position by position (partial traces)"""
    n = int(round(np.log2(R.shape[-1])))
    if R.shape != (2**n, 2**n):
        return None
    T = R.reshape((2,)*(2*n))
    chain = []
    for k in range(n):
        sub = list(range(n)) + list(range(n))
        sub[k], sub[n + k] = n, n + 1
        A = np.einsum(T, sub, [n, n + 1])
        if abs(np.trace(A)) < 1e-12:
            return None
        A = A/np.trace(A)
        cands = [q for q in F if np.allclose(A, F[q], atol=1e-9, rtol=0)]
        if len(cands) != 1:
            return None
        chain.append(cands[0])
    if not np.allclose(R, kron(*[F[q] for q in chain]), atol=1e-9, rtol=0):
        return None
    return chain


def answer(fn):
    try:
        return fn()
    except Exception as e:   # noqa
        return 'err ' + type(e).__name__


def state_answer(attrs, registers, F):
    if registers is None:
        return 'ok none'
    chain = read_off_chain(np.asarray(attrs[0]), F)
    if chain is None:
        return 'ok NOT-A-CHAIN ' + show(registers)
    return 'ok ' + show(chain) + ' ' + show(registers)


# ---------------------------------------------------------------------------------------------
# Part A
def random_assignment(N, sort_blocks=True, max_block=3):
    qubits = list(range(N))
    rnd.shuffle(qubits)
    n_active = rnd.randint(1, N)
    active = qubits[:n_active]
    multi, single = [], []
    i = 0
    while i < len(active):
        size = rnd.choice([1, 1, 2, 2, 3][:2 + max_block])
        size = min(size, len(active) - i)
        blk = active[i:i + size]
        i += size
        if len(blk) == 1:
            single.append(blk[0])
        else:
            multi.append(sorted(blk) if sort_blocks else blk)
    return multi, single


def run_extend_order(multi, single, N, F):
    """the calls of `extend` (l. 2503-2533 / 2545-2562)"""
    all_qubits = {q for q in range(N)}
    active_qubits = set([q for b in multi for q in b] + list(single))
    attrs, registers = [None], None
    for blk in multi:
        attrs, registers = _merge_attrs(attrs, [kron(*[F[q] for q in blk])], 2, registers,
                                        list(blk))
    for q in single:
        attrs, registers = _insert_attrs(attrs, [F[q]], 2, registers, q)
    ID_idx = list(all_qubits.difference(active_qubits))
    if ID_idx:
        attrs, registers = _merge_attrs(attrs, [kron(*[F[q] for q in ID_idx])], 2, registers,
                                        ID_idx)
    return attrs, registers, ID_idx


requests, expected, notes = [], [], []
n_partA = n_partA_big = n_unsorted_idle = 0
for it in range(N_A):
    N = rnd.randint(1, 6)
    sort_blocks = rnd.random() < 0.8
    multi, single = random_assignment(N, sort_blocks)
    F = make_factors(range(N))
    res = answer(lambda: run_extend_order(multi, single, N, F))
    if isinstance(res, str):
        exp, ID_idx = res, sorted(set(range(N)) - set(q for b in multi for q in b) - set(single))
    else:
        exp, ID_idx = state_answer(res[0], res[1], F), res[2]
    assert ID_idx == sorted(ID_idx)      # N <= 8: CPython lists small int sets in order
    requests.append(f'registers {show_blocks(multi)} {show(single)} {N}')
    expected.append(exp)
    notes.append('A')
    n_partA += 1

# bigger registers: set order of the idle qubits is not ascending
for it in range(max(8, N_A//30)):
    for _ in range(500):
        N = rnd.choice([9, 10])
        act = list(range(N))
        rnd.shuffle(act)
        act = act[:rnd.randint(2, 6)]
        idle = list({q for q in range(N)}.difference(set(act)))
        if it % 4 == 3 or idle != sorted(idle):
            break
    multi = [sorted(act[:len(act)//2])] if len(act)//2 > 1 else []
    single = act[len(act)//2:] if multi else act
    F = make_factors(range(N))
    res = answer(lambda: run_extend_order(multi, single, N, F))
    if isinstance(res, str):
        continue
    exp, ID_idx = state_answer(res[0], res[1], F), res[2]
    n_unsorted_idle += ID_idx != sorted(ID_idx)
    requests.append(f'registers {show_blocks(multi)} {show(single)} {N} {show(ID_idx)}')
    expected.append(exp)
    notes.append('A-big')
    n_partA_big += 1

# ---------------------------------------------------------------------------------------------
# Part B
n_partB = 0
for it in range(N_B):
    kind = rnd.choice(['merge', 'merge', 'insert', 'bisect', 'insort'])
    if kind in ('bisect', 'insort'):
        l = [rnd.randint(0, 9) for _ in range(rnd.randint(0, 7))]
        if rnd.random() < 0.5:
            l.sort()
        x = rnd.randint(0, 10)
        if kind == 'bisect':
            requests.append(f'reg_bisect {show(l)} {x}')
            expected.append(f'ok {bisect.bisect(l, x)}')
        else:
            l2 = list(l)
            bisect.insort(l2, x)
            requests.append(f'reg_insort {show(l)} {x}')
            expected.append('ok ' + show(l2))
        notes.append('B-' + kind)
        n_partB += 1
        continue
    n = rnd.randint(1, 4)
    labels = list(range(8))
    rnd.shuffle(labels)
    chain = labels[:n]
    mode = rnd.random()
    if mode < 0.4:                       # the invariant of extend
        chain = sorted(chain)
        regs = list(chain)
    elif mode < 0.6:                     # chain = registers, unsorted
        regs = list(chain)
    elif mode < 0.85:                    # arbitrary registers of the right length
        regs = [rnd.randint(0, 8) for _ in range(n)]
    else:                                # wrong length
        regs = [rnd.randint(0, 8) for _ in range(rnd.choice([m for m in range(1, 6) if m != n]))]
        if rnd.random() < 0.5:
            regs.sort()
    F = make_factors(range(8))
    old = [kron(*[F[q] for q in chain])]
    if kind == 'merge':
        m = rnd.randint(1, 3)
        qubits = labels[n:n + m]
        if rnd.random() < 0.6:
            qubits.sort()
        res = answer(lambda: _merge_attrs(old, [kron(*[F[q] for q in qubits])], 2, list(regs),
                                          list(qubits)))
        requests.append(f'reg_merge {show(chain)} {show(regs)} {show(qubits)}')
    else:
        q = labels[n]
        res = answer(lambda: _insert_attrs(old, [F[q]], 2, list(regs), q))
        requests.append(f'reg_insert {show(chain)} {show(regs)} {q}')
    expected.append(res if isinstance(res, str) else state_answer(res[0], res[1], F))
    notes.append('B-' + kind)
    n_partB += 1

# first calls (registers is None)
for qubits in ([3, 1], [0, 2, 5]):
    F = make_factors(range(8))
    res = _merge_attrs([None], [kron(*[F[q] for q in qubits])], 2, None, list(qubits))
    requests.append(f'reg_merge none _ {show(qubits)}')
    expected.append(state_answer(res[0], res[1], F))
    notes.append('B-merge')
    n_partB += 1
F = make_factors(range(8))
res = _insert_attrs([None], [F[4]], 2, None, 4)
requests.append('reg_insert none _ 4')
expected.append(state_answer(res[0], res[1], F))
notes.append('B-insert')
n_partB += 1


# ---------------------------------------------------------------------------------------------
# Part C: the real extend
def embed(O, qubits, N):
    """O acts on len(qubits) qubits, its k-th tensor factor on qubits[k]; result on N qubits in
    ascending qubit order.  Leading axes are broadcast."""
    O = np.asarray(O)
    k = len(qubits)
    lead = O.shape[:-2]
    rest = [q for q in range(N) if q not in qubits]
    cur = list(qubits) + rest
    full = np.einsum('...ab,cd->...acbd', O, np.eye(2**(N - k))).reshape(lead + (2,)*(2*N))
    perm = [cur.index(i) for i in range(N)]
    L = len(lead)
    axes = list(range(L)) + [L + p for p in perm] + [L + N + p for p in perm]
    return full.transpose(axes).reshape(lead + (2**N, 2**N))


def random_herm(d):
    A = rng.standard_normal((d, d)) + 1j*rng.standard_normal((d, d))
    return (A + A.conj().T)/2


DT = np.array([0.3, 0.5, 0.2])
counter = [0]


def random_pulse(k):
    n_c = rnd.randint(1, 2)
    ids = []
    H_c, H_n = [], []
    for _ in range(n_c):
        counter[0] += 1
        ids.append(f'C{counter[0]}')
        H_c.append([random_herm(2**k), list(rng.standard_normal(len(DT))), ids[-1]])
    counter[0] += 1
    H_n.append([random_herm(2**k), list(np.abs(rng.standard_normal(len(DT)))), f'N{counter[0]}'])
    p = ff.PulseSequence(H_c, H_n, list(DT), basis=ff.Basis.pauli(k))
    p.diagonalize()
    return p


n_partC = n_partC_checks = 0
c_mismatch = []
for it in range(N_C):
    N = rnd.randint(2, 4)
    multi, single = random_assignment(N, sort_blocks=False, max_block=3)
    N_arg = N if rnd.random() < 0.7 else None
    N_eff = N if N_arg is not None else max(sum(multi, []) + single) + 1
    if len(multi) + len(single) == 1 and N_eff == len(sum(multi, []) + single):
        # one pulse mapped to all qubits: extend returns the (remapped) input pulse
        continue
    mapping, info = [], []
    for blk in multi:
        p = random_pulse(len(blk))
        mapping.append((p, tuple(blk)))
        info.append((p, list(blk)))
    for q in single:
        p = random_pulse(1)
        mapping.append((p, q))
        info.append((p, [q]))
    rnd.shuffle(mapping)                 # the order of pulse_to_qubit_mapping is arbitrary
    try:
        new = ff.extend(mapping, N=N_arg)
    except Exception as e:              # noqa
        c_mismatch.append(('extend raised', type(e).__name__, str(e)[:80], multi, single, N))
        continue
    n_partC += 1
    if N_eff != int(round(np.log2(new.d))):
        c_mismatch.append(('dimension', new.d, multi, single, N_arg))
        continue
    ok = True
    # control operators
    for p, qs in info:
        for ident, op in zip(p.c_oper_identifiers, p.c_opers):
            hits = [j for j, s in enumerate(new.c_oper_identifiers) if s.startswith(ident + '_')]
            n_partC_checks += 1
            if len(hits) != 1 or not np.allclose(new.c_opers[hits[0]], embed(op, qs, N_eff),
                                                 atol=1e-10):
                ok = False
                c_mismatch.append(('c_oper', ident, multi, single, N))
    # diagonalization attributes (they went through _merge_attrs / _insert_attrs)
    for attr in ('eigvecs', 'propagators', 'total_propagator'):
        if not new.is_cached(attr):
            c_mismatch.append(('not cached', attr, multi, single, N))
            continue
        ref = None
        for p, qs in info:
            E = embed(getattr(p, attr), qs, N_eff)
            ref = E if ref is None else ref @ E
        n_partC_checks += 1
        if not np.allclose(getattr(new, attr), ref, atol=1e-10):
            ok = False
            c_mismatch.append((attr, multi, single, N))
    # the same assignment through the model (blocks as extend sorts them)
    requests.append(f'registers {show_blocks([sorted(b) for b in multi])} {show(single)} {N_eff}')
    expected.append('ok ' + show(range(N_eff)) + ' ' + show(range(N_eff)))
    notes.append('C')

# ---------------------------------------------------------------------------------------------
out = subprocess.run(['lake', 'env', 'lean', '--run', 'Driver.lean'], cwd=LEAN_DIR,
                     input='\n'.join(requests) + '\n', capture_output=True, text=True)
answers = out.stdout.strip().split('\n')
if len(answers) != len(requests):
    print('driver failed:', out.stderr[-2000:])
    print(f'{len(answers)} answers for {len(requests)} requests')
    sys.exit(2)

mismatch = [(r, e, a, k) for r, e, a, k in zip(requests, expected, answers, notes) if e != a]
n_err = sum(e.startswith('err') for e in expected)
n_unsorted_res = sum(1 for e, k in zip(expected, notes)
                     if k.startswith(('A', 'B-m', 'B-i')) and e.startswith('ok ')
                     and len(e.split()) == 3 and e.split()[1] != e.split()[2])
for m in mismatch[:20]:
    print('MISMATCH', m)
for m in c_mismatch[:20]:
    print('EXTEND MISMATCH', m)
print(f'xcheck_registers: A {n_partA}+{n_partA_big} extend-order runs '
      f'({n_unsorted_idle} with unsorted ID_idx), B {n_partB} single calls, '
      f'C {n_partC} real extend runs / {n_partC_checks} operator checks; '
      f'{len(requests)} driver requests ({n_err} exceptions, {n_unsorted_res} results with '
      f'chain != registers); mismatches: driver {len(mismatch)}, extend {len(c_mismatch)}')
sys.exit(0 if not mismatch and not c_mismatch else 1)
